"""Verify one function against its sidecar contract: generate obligations, solve, report."""
import ast
import hashlib
import itertools
import json
import os
import time
import traceback

import z3

from .vals import *
from .tys import *
from .contract import REGISTRY, Const
from .interp import Interp, St, Raise, EngineLimit, NORMAL, stmt_text, Obligation
from . import contracts_rt as C
from . import solve as S


class FuncReport:
    def __init__(self, qual):
        self.qual = qual
        self.file = None
        self.lines = None
        self.sha256 = None
        self.statements = 0
        self.dropped = 0
        self.obligations = {}     # name -> dict(kind, queries, status, solver time, ...)
        self.queries = 0
        self.refuted = []         # list of dict(name, model, case, ...)
        self.undecided = []
        self.covers = []          # (case label, sat?)
        self.error = None         # EngineLimit message: function outside reach
        self.trusted = []
        self.used_contracts = []
        self.inlined = []
        self.paths = 0
        self.gen_s = 0.0
        self.solve_s = 0.0
        self.z3_s = 0.0
        self.cvc5_s = 0.0
        self.by_backend = {'z3': 0, 'cvc5': 0}

    def to_json(self):
        return {k: v for k, v in self.__dict__.items()}


def source_info(I, qual, rep):
    fn = I.find_function(qual)
    if fn is None:
        raise EngineLimit('function %s not found in the repository' % qual)
    m, node, cls = fn
    seg = ast.get_source_segment(m.src, node)
    rep.file = os.path.relpath(m.path, I.repo)
    rep.lines = [node.lineno, node.end_lineno]
    rep.sha256 = hashlib.sha256(seg.encode()).hexdigest()
    stmts = [n for n in ast.walk(node) if isinstance(n, ast.stmt)]
    rep.statements = len(stmts)
    dropped = 0
    for n in stmts:
        if isinstance(n, ast.Expr) and isinstance(n.value, ast.Constant):
            dropped += 1   # docstring / bare constant
    rep.dropped = dropped
    return m, node, cls


def case_product(c):
    """all (label, {param: type}, tactic) case combinations.  `cases` is a complete split of
    the declared domain; a tactic (selected by the case values) may add a length split of a
    string parameter (complete: lengths 0..k plus the residual len > k) and name spec
    functions to keep opaque."""
    dims = []
    for p, vals in c.cases.items():
        dims.append([(p, v) for v in vals])
    combos = list(itertools.product(*dims)) if dims else [()]
    tcs = list(getattr(c, 'type_cases', ()) or [('', {})])
    sps = list(getattr(c, 'split_on', ()) or [])
    if sps:
        tcs = [((tl + ', ' if tl else '') + 'when ' + e, dict(tm, __assume__=e)) for (tl, tm) in tcs for e in sps] + \
              [((tl + ', ' if tl else '') + 'split exhaustive', dict(tm, __exhaustive__=sps)) for (tl, tm) in tcs]
    for combo, (tlabel, tmap) in itertools.product(combos, tcs):
        assign = dict(combo)
        tac = {'split_len': dict(c.split_len), 'opaque': list(getattr(c, 'opaque', ()) or ())}
        for t in getattr(c, 'tactics', ()) or ():
            if all(assign.get(k) in vs for k, vs in t.get('when', {}).items()):
                tac = {'split_len': dict(t.get('split_len', {})), 'opaque': list(t.get('opaque', ()))}
                break
        base_label = ', '.join(['%s=%r' % (k, v) for k, v in combo] + ([tlabel] if tlabel else []))
        base = {k: Const(v) for k, v in combo}
        base.update(tmap)
        sdims = []
        for p, k in tac['split_len'].items():
            d = [(p, StrN(n), 'len(%s)=%d' % (p, n)) for n in range(k + 1)]
            d.append((p, ('residual', k), 'len(%s)>%d' % (p, k)))
            sdims.append(d)
        for sc in (itertools.product(*sdims) if sdims else [()]):
            ov = dict(base)
            ov.update({x[0]: x[1] for x in sc})
            label = ', '.join([base_label] + [x[2] for x in sc]) if base_label else ', '.join(x[2] for x in sc)
            yield label, ov, tac


def value_probes(I, st, name, v, out, depth=0):
    """flatten a symbolic input value into (name, z3 expr) leaves"""
    if isinstance(v, (SInt, SBool)):
        out.append((name, v.e))
    elif isinstance(v, SIte):
        out.append((name + '?a', v.c))
        value_probes(I, st, name + '?A', v.a, out, depth + 1)
        value_probes(I, st, name + '?B', v.b, out, depth + 1)
    elif isinstance(v, SNone):
        pass
    elif isinstance(v, SStr):
        out.append((name, v.z()))
    elif isinstance(v, STuple):
        for k, x in enumerate(v.items):
            value_probes(I, st, '%s[%d]' % (name, k), x, out, depth + 1)
    elif isinstance(v, Ref) and depth < 6:
        o = st.heap[v.addr]
        if isinstance(o, HSeq):
            out.append((name, o.e))
        elif isinstance(o, HList):
            out.append((name + '.__len__', z3.IntVal(len(o.items))))
            for k, x in enumerate(o.items):
                value_probes(I, st, '%s[%d]' % (name, k), x, out, depth + 1)
        elif isinstance(o, HObj):
            for f, x in o.fields.items():
                value_probes(I, st, '%s.%s' % (name, f), x, out, depth + 1)


def generate(I, qual, rep, opts, only_cases=None):
    """symbolically execute `qual` under its contract; fills I.obligations"""
    c = REGISTRY[qual]
    m, fnode, cls = source_info(I, qual, rep)
    I.cur_func = qual
    I.cur_func_qual = qual
    I.cur_contract = c
    for k_, v_ in getattr(c, 'options', {}).items():
        setattr(I, k_, v_)
    scope = c.scope
    argnames = [a.arg for a in fnode.args.args]
    covers = []
    all_probes = {}
    is_gen = any(isinstance(n, (ast.Yield, ast.YieldFrom)) for n in ast.walk(fnode))
    for case_idx, (label, overrides, tac) in enumerate(case_product(c)):
        if only_cases is not None and case_idx not in only_cases:
            continue
        st0 = St()
        I.opaque_specs = tuple(tac['opaque'])
        # parameters
        ptypes = {}
        for a in argnames:
            if a in overrides:
                ptypes[a] = overrides[a]
            elif a == 'self' and c.self_type is not None:
                ptypes[a] = c.self_type
            elif a in c.params:
                ptypes[a] = c.params[a]
            else:
                raise EngineLimit('no type for parameter %s of %s' % (a, qual))

        def mk(i, env, st):
            if i == len(argnames):
                yield st, env
                return
            a = argnames[i]
            t = ptypes[a]
            if a.startswith('__'):
                yield from mk(i + 1, env, st)
                return
            if isinstance(t, tuple) and t[0] == 'residual':
                e = I.fresh(a, z3.StringSort())
                st.assume(z3.Length(e) > t[1])
                d = dict(env)
                d[a] = SStr(expr=e)
                yield from mk(i + 1, d, st)
                return
            for st1, v in C.fresh_value(I, st, t, a):
                d = dict(env)
                d[a] = v
                yield from mk(i + 1, d, st1)
        for st, env in mk(0, {}, st0):
            for r in c.requires:
                C.assume_expr(I, r, env, st, scope)
            if '__exhaustive__' in overrides:
                # the case split is complete: some case condition holds for every input
                neg = st.fork()
                for e in overrides['__exhaustive__']:
                    C.assume_expr(I, 'not (%s)' % e, env, neg, scope)
                o = Obligation('%s#split-exhaustive' % qual, 'split', neg.pc, z3.BoolVal(False), qual, '', note=' | '.join(overrides['__exhaustive__']))
                o.tag = {'case': label, 'probes': []}
                I.obligations.append(o)
                covers.append((label, 'return', list(st.pc)))
                continue
            if '__assume__' in overrides:
                C.assume_expr(I, overrides['__assume__'], env, st, scope)
            if not I.feasible(st.pc):
                covers.append((label, 'requires', list(st.pc)))
                continue
            I.base_pc = list(st.pc)
            I.case_serial += 1
            I._spec_cache = {}
            I._spec_pins = []
            probes = []
            for a in argnames:
                value_probes(I, st, a, env[a], probes)
            for pn, pexpr in (c.ghost.get('probes') or {}).items():
                outs = list(C.eval_forks(I, pexpr, env, st, scope))
                if len(outs) == 1 and not isinstance(outs[0][1], Raise):
                    value_probes(I, outs[0][0], pn, outs[0][1], probes)
            old_st = st.fork()
            frame = dict(env)
            frame['__module__'] = m
            frame['__func__'] = qual
            frame['__locals__'] = I.local_names(fnode)
            if cls:
                frame['__class__'] = m.name + '.' + cls
            st.frames = [frame]
            if is_gen:
                st.ghost['__yielded__'] = []
            reached_normal = 0
            n_out = 0
            for st1, sig in I.ex(fnode.body, st):
                n_out += 1
                st1.ghost = dict(st1.ghost)
                st1.ghost['__old__'] = old_st
                tag = {'case': label, 'probes': probes}
                if sig is NORMAL or sig[0] == 'return':
                    res = NONE if sig is NORMAL else sig[1]
                    if reached_normal < 3:
                        reached_normal += 1
                        covers.append((label, 'return', list(st1.pc)))
                    b = dict(env)
                    b['result'] = res
                    if is_gen:
                        b['yielded'] = I.alloc(st1, HList(st1.ghost.get('__yielded__', [])))
                    retnode = None
                    sitename = 'return' if sig is not NORMAL else 'end'
                    n0 = len(I.obligations)
                    for k, e in enumerate(c.ensures):
                        C.prove_expr(I, e, b, st1, scope, 'post', name='%s#post[%d]' % (qual, k), note=e)
                    for en, cond in c.raises.items():
                        if cond is not True:
                            C.prove_expr(I, 'not (%s)' % cond, b, st1, scope, 'raises-exact',
                                         name='%s#must-raise:%s' % (qual, en), note=cond)
                    for o in I.obligations[n0:]:
                        o.tag = tag
                elif sig[0] == 'raise':
                    exc = sig[1]
                    allowed = None
                    for en in c.raises:
                        if I.exc_isa(exc.cls, en) or exc.cls.rsplit('.', 1)[-1] == en:
                            allowed = en
                            break
                    n0 = len(I.obligations)
                    if allowed is None:
                        I.obligations.append(Obligation('%s#raise:%s@%s' % (qual, exc.cls.rsplit('.', 1)[-1], exc.site or '?'),
                                                        'raise', st1.pc, z3.BoolVal(False), qual, exc.site or '',
                                                        note='exception %s escapes' % exc.cls))
                    else:
                        cond = c.raises[allowed]
                        b = dict(env)
                        b['result'] = NONE
                        if cond is not True:
                            C.prove_expr(I, cond, b, st1, scope, 'raise-allowed',
                                         name='%s#raise-allowed:%s@%s' % (qual, allowed, exc.site or '?'), note=cond)
                        for k, e in enumerate(c.exc_ensures.get(allowed, ())):
                            C.prove_expr(I, e, b, st1, scope, 'exc-post',
                                         name='%s#exc-post:%s[%d]' % (qual, allowed, k), note=e)
                        if not reached_normal and not c.ensures:
                            pass
                    for o in I.obligations[n0:]:
                        o.tag = tag
                else:
                    raise EngineLimit('break/continue escaped')
            if n_out == 0:
                covers.append((label, 'no-path', list(st.pc)))
    for o in I.obligations:
        if not hasattr(o, 'tag'):
            o.tag = {'case': '', 'probes': []}
    return covers


def _verify_cases(argtuple):
    """worker: generate + solve the obligations of a subset of the cases (own process)"""
    repo, verif, qual, opts, only_cases = argtuple
    rep = FuncReport(qual)
    t0 = time.time()
    I = Interp(repo, verif, prune_timeout_ms=opts.get('prune_ms', 400))
    try:
        covers = generate(I, qual, rep, opts, only_cases)
    except EngineLimit as ex:
        rep.error = 'outside reach: %s' % ex
        rep.gen_s = time.time() - t0
        return rep
    except Exception:
        rep.error = 'engine crash: ' + traceback.format_exc()[-1200:]
        rep.crash = True
        return rep
    rep.gen_s = round(time.time() - t0, 3)
    rep.trusted = sorted(I.trusted)
    rep.used_contracts = sorted(I.used_contracts)
    rep.inlined = sorted(I.inlined)
    rep.paths = I.stats['paths']
    rep.prune_calls = I.stats['prune_calls']
    jobs = []
    meta = []
    z3_ms = opts.get('z3_ms', 10000)
    cvc5_ms = opts.get('cvc5_ms', 10000)
    copt = getattr(REGISTRY.get(qual), 'options', None) or {}
    if copt.get('z3_share'):
        # obligations over strings of unknown length: z3's sequence solver rarely decides them, cvc5 does - give z3 a small share
        # of the budget first and cvc5 the rest (an unknown from both is retried with four times the budget anyway)
        z3_ms = max(500, int(z3_ms * copt['z3_share']))
    for o in I.obligations:
        g = o.goal
        if isinstance(g, bool):
            g = z3.BoolVal(g)
        if z3.is_true(z3.simplify(g)):
            smt2, names = None, []
        else:
            smt2, names = S.build_query(list(o.pc) + list(I.axioms), g, o.tag.get('probes'))
        meta.append((o, names))
        if smt2 is not None:
            qf = None
            if I.axioms or any(z3.is_quantifier(f) for f in o.pc):
                qf, _ = S.build_query(list(o.pc) + [ax for ax in I.axioms if not z3.is_quantifier(ax)], g, o.tag.get('probes'), drop_quantified=True)
            jobs.append((len(meta) - 1, smt2, names, z3_ms, cvc5_ms, qf))
    for (label, what, pc) in covers:
        smt2, names = S.build_query(pc, None, None, drop_quantified=True)
        meta.append((('cover', label, what), names))
        jobs.append((len(meta) - 1, smt2, names, z3_ms, cvc5_ms))
    t1 = time.time()
    outs = [S.solve_one(j) for j in jobs]
    rep.solve_s = round(time.time() - t1, 3)
    by_idx = {o['idx']: o for o in outs}
    smt2_by_idx = {j[0]: (j[1], j[2]) for j in jobs}
    job_text = {id(o): smt2_by_idx.get(o['idx']) for o in outs}
    weak_kept = {}
    for i, (o, names) in enumerate(meta):
        out = by_idx.get(i)
        if isinstance(o, tuple):
            v = S.verdict(out)
            rep.covers.append({'case': o[1], 'what': o[2], 'result': v})
            continue
        ent = rep.obligations.setdefault(o.name, {'kind': o.kind, 'queries': 0, 'unsat': 0, 'sat': 0, 'unknown': 0,
                                                  'trivial': 0, 'solver_s': 0.0, 'note': o.note, 'backend': []})
        ent['queries'] += 1
        rep.queries += 1
        if out is None:
            ent['trivial'] += 1
            ent['unsat'] += 1
            continue
        rep.z3_s += out['z3_s']
        rep.cvc5_s += out['cvc5_s']
        ent['solver_s'] = round(ent['solver_s'] + out['z3_s'] + out['cvc5_s'], 3)
        v = S.verdict(out)
        ent[v] += 1
        if v == 'unsat':
            be = 'z3' if out['z3'] == 'unsat' else 'cvc5'
            if be not in ent['backend']:
                ent['backend'].append(be)
            rep.by_backend[be] += 1
        elif v == 'sat':
            rec = {'obligation': o.name, 'kind': o.kind, 'case': o.tag.get('case'), 'site': o.site,
                   'note': o.note, 'model': out.get('model'), 'weak': bool(out.get('weak'))}
            if rec['weak'] and weak_kept.get(o.name, 0) < 6:
                # a candidate found WITHOUT the lemma axioms: keep the full query, the driver re-solves it with a large budget
                # (cvc5, z3 x4) before it gives the obligation up as undecided
                weak_kept[o.name] = weak_kept.get(o.name, 0) + 1
                rec['smt2'] = job_text.get(id(out))
            rep.refuted.append(rec)
        else:
            rep.undecided.append({'obligation': o.name, 'case': o.tag.get('case'), 'reason': out.get('reason'),
                                  'z3': out['z3'], 'cvc5': out['cvc5']})
    return rep


def verify_function(repo, verif, qual, opts=None):
    opts = dict(opts or {})
    opts.pop('argnames', None)
    c = REGISTRY[qual]
    ncases = sum(1 for _ in case_product(c))
    procs = max(1, min(opts.get('procs', 16), ncases))
    t0 = time.time()
    if procs == 1:
        parts = [_verify_cases((repo, verif, qual, opts, None))]
    else:
        # round-robin so that expensive neighbouring cases spread over the workers
        chunks = [set(range(k, ncases, procs * 2)) for k in range(procs * 2)]
        chunks = [ch for ch in chunks if ch]
        import multiprocessing as mp
        budget = opts.get('func_budget_s', 1500)
        with mp.get_context('fork').Pool(procs) as pool:
            res = pool.map_async(_verify_cases, [(repo, verif, qual, opts, ch) for ch in chunks], chunksize=1)
            try:
                parts = res.get(timeout=budget)
            except mp.TimeoutError:
                # safety valve, not a verdict: a change can make path exploration explode; the function is then reported as outside
                # reach (UNDECIDED) so that the check ends and the other units of the property still report
                pool.terminate()
                rep = FuncReport(qual)
                rep.error = 'outside reach: the time budget of %d s for one function was exceeded (path explosion)' % budget
                rep.wall_s = round(time.time() - t0, 3)
                return rep
    rep = parts[0]
    for p in parts[1:]:
        if p.error and not rep.error:
            rep.error = p.error
        rep.queries += p.queries
        rep.refuted += p.refuted
        rep.undecided += p.undecided
        rep.covers += p.covers
        rep.trusted = sorted(set(rep.trusted) | set(p.trusted))
        rep.used_contracts = sorted(set(rep.used_contracts) | set(p.used_contracts))
        rep.inlined = sorted(set(rep.inlined) | set(p.inlined))
        rep.paths += p.paths
        rep.gen_s += p.gen_s
        rep.solve_s += p.solve_s
        rep.z3_s += p.z3_s
        rep.cvc5_s += p.cvc5_s
        for k, v in p.by_backend.items():
            rep.by_backend[k] += v
        for name, ent in p.obligations.items():
            e0 = rep.obligations.get(name)
            if e0 is None:
                rep.obligations[name] = ent
            else:
                for k in ('queries', 'unsat', 'sat', 'unknown', 'trivial'):
                    e0[k] += ent[k]
                e0['solver_s'] = round(e0['solver_s'] + ent['solver_s'], 3)
                e0['backend'] = sorted(set(e0['backend']) | set(ent['backend']))
    for ent in rep.obligations.values():
        ent['backend'] = sorted(ent['backend'])
        ent['status'] = 'refuted' if ent['sat'] else ('undecided' if ent['unknown'] else 'discharged')
    rep.gen_s = round(rep.gen_s, 3)
    rep.solve_s = round(rep.solve_s, 3)
    rep.z3_s = round(rep.z3_s, 3)
    rep.cvc5_s = round(rep.cvc5_s, 3)
    rep.wall_s = round(time.time() - t0, 3)
    return rep
