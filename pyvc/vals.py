"""Symbolic values of the pyvc executor.

Every Python value that can occur in the verified subset is one of the classes below.
Integers/booleans always carry a z3 expression (numerals for constants).  Strings have
two representations: a *vector* of code points (python list of z3 Int expressions, known
length) and a *native* z3 String expression (unknown length).  Vector strings turn all
string reasoning into linear integer arithmetic; native strings use the sequence theory.
"""
try:
    import z3
except ImportError:   # native replay under /venv python: only names are needed
    z3 = None

MAXCP = 0x10FFFF


class V:
    pass


class SInt(V):
    __slots__ = ('e', 'digits')

    def __init__(self, e, digits=None):
        if isinstance(e, bool):
            e = int(e)
        if isinstance(e, int):
            e = z3.IntVal(e)
        self.e = e
        self.digits = digits      # code points this int was parsed from (int('0123')), if any

    def conc(self):
        e = z3.simplify(self.e) if not z3.is_int_value(self.e) else self.e
        return e.as_long() if z3.is_int_value(e) else None

    def __repr__(self):
        return 'SInt(%s)' % self.e


class SBool(V):
    __slots__ = ('e',)

    def __init__(self, e):
        if isinstance(e, bool):
            e = z3.BoolVal(e)
        self.e = e

    def conc(self):
        e = z3.simplify(self.e)
        if z3.is_true(e):
            return True
        if z3.is_false(e):
            return False
        return None

    def __repr__(self):
        return 'SBool(%s)' % self.e


class SNone(V):
    def __repr__(self):
        return 'SNone'


NONE = SNone()


class SNotImplemented(V):
    pass


NOTIMPL = SNotImplemented()


def _cp(c):
    if isinstance(c, int):
        return z3.IntVal(c)
    return c


class SStr(V):
    """chars: list of z3 Int (code points) when the length is known, else expr: z3 String"""
    __slots__ = ('chars', 'expr', 'tag', 'parts')

    def __init__(self, chars=None, expr=None):
        self.chars = [_cp(c) for c in chars] if chars is not None else None
        self.expr = expr
        self.tag = None
        self.parts = None     # (prefix z3 String, tail code points, sep code): expr == prefix ++ tail, tail is the last sep-piece

    @staticmethod
    def const(s):
        return SStr(chars=[ord(c) for c in s])

    def is_vec(self):
        return self.chars is not None

    def conc(self):
        """python str if fully concrete else None"""
        if self.chars is not None:
            out = []
            for c in self.chars:
                if not z3.is_int_value(c):
                    c = z3.simplify(c)
                    if not z3.is_int_value(c):
                        return None
                out.append(chr(c.as_long()))
            return ''.join(out)
        e = z3.simplify(self.expr)
        if z3.is_string_value(e):
            return e.as_string().encode('latin-1', 'backslashreplace').decode('unicode_escape') if '\\u{' in e.as_string() else e.as_string()
        return None

    def z(self):
        """native z3 String expression"""
        if self.expr is not None:
            return self.expr
        if not self.chars:
            return z3.StringVal('')
        parts = []
        run = []
        for c in self.chars:
            if z3.is_int_value(c):
                run.append(chr(c.as_long()))
            else:
                if run:
                    parts.append(z3.StringVal(''.join(run)))
                    run = []
                parts.append(z3.StrFromCode(c))
        if run:
            parts.append(z3.StringVal(''.join(run)))
        return parts[0] if len(parts) == 1 else z3.Concat(*parts)

    def length(self):
        if self.chars is not None:
            return len(self.chars)
        return z3.Length(self.expr)

    def __repr__(self):
        c = self.conc()
        if c is not None:
            return 'SStr(%r)' % c
        if self.chars is not None:
            return 'SStr(vec%d)' % len(self.chars)
        return 'SStr(%s)' % self.expr


class SIte(V):
    """lazy choice between two values of possibly different python types (forced - i.e. the
    path is split - only when an operation cannot distribute over it)"""
    __slots__ = ('c', 'a', 'b', 'orig')

    def __init__(self, c, a, b, orig=None):
        self.c, self.a, self.b = c, a, b
        self.orig = orig      # (z3 expr, type repr) this value was decoded from, if any

    def __repr__(self):
        return 'SIte(%s ? %r : %r)' % (self.c, self.a, self.b)


class SUnbound(V):
    """marker inside a lazy choice: the variable is not bound on that alternative"""
    def __repr__(self):
        return 'SUnbound'


UNB = SUnbound()


class STuple(V):
    __slots__ = ('items',)

    def __init__(self, items):
        self.items = list(items)

    def __repr__(self):
        return 'STuple(%r)' % (self.items,)


class Ref(V):
    """reference to a heap object"""
    __slots__ = ('addr',)

    def __init__(self, addr):
        self.addr = addr

    def __repr__(self):
        return 'Ref(%s)' % self.addr


class SOpaque(V):
    """abstract immutable object represented by a z3 constant of an uninterpreted sort"""
    __slots__ = ('e', 'tname')

    def __init__(self, e, tname):
        self.e = e
        self.tname = tname

    def __repr__(self):
        return 'SOpaque(%s:%s)' % (self.e, self.tname)


class SExc(V):
    """an exception instance"""
    __slots__ = ('cls', 'args', 'site')

    def __init__(self, cls, args=(), site=None):
        self.cls = cls
        self.args = tuple(args)
        self.site = site

    def __repr__(self):
        return 'SExc(%s)' % self.cls


class SExcClass(V):
    __slots__ = ('name',)

    def __init__(self, name):
        self.name = name

    def __repr__(self):
        return 'SExcClass(%s)' % self.name


class SFunc(V):
    """callable: kind in {'repo','spec','builtin','method','class'}"""
    __slots__ = ('kind', 'name', 'node', 'module', 'selfv', 'cls')

    def __init__(self, kind, name, node=None, module=None, selfv=None, cls=None):
        self.kind = kind
        self.name = name
        self.node = node
        self.module = module
        self.selfv = selfv
        self.cls = cls

    def __repr__(self):
        return 'SFunc(%s:%s)' % (self.kind, self.name)


class SClass(V):
    __slots__ = ('qual', 'node', 'module')

    def __init__(self, qual, node, module):
        self.qual = qual
        self.node = node
        self.module = module

    def __repr__(self):
        return 'SClass(%s)' % self.qual


class SModule(V):
    __slots__ = ('name',)

    def __init__(self, name):
        self.name = name

    def __repr__(self):
        return 'SModule(%s)' % self.name


class SRegex(V):
    __slots__ = ('pattern', 'flags', 'name')

    def __init__(self, pattern, flags, name=None):
        self.pattern = pattern
        self.flags = flags
        self.name = name


class SMatch(V):
    """result of a successful re search: whole-match string and named/numbered groups
    (each group value is a V: SStr or NONE)"""
    __slots__ = ('g0', 'groups')

    def __init__(self, g0, groups=None):
        self.g0 = g0
        self.groups = groups or {}


# ---- heap objects ---------------------------------------------------------------

class HList:
    """python list of known length"""
    __slots__ = ('items',)

    def __init__(self, items):
        self.items = list(items)

    def copy(self):
        return HList(self.items)


class HSeq:
    """python list of symbolic length: z3 Seq expression + element type"""
    __slots__ = ('e', 'ety')

    def __init__(self, e, ety):
        self.e = e
        self.ety = ety

    def copy(self):
        return HSeq(self.e, self.ety)


class HDict:
    """dict with concrete keys (insertion ordered)"""
    __slots__ = ('items',)

    def __init__(self, items):
        self.items = list(items)  # list of (key V, value V)

    def copy(self):
        return HDict(self.items)


class HObj:
    __slots__ = ('cls', 'fields')

    def __init__(self, cls, fields):
        self.cls = cls       # qualified class name
        self.fields = dict(fields)

    def copy(self):
        return HObj(self.cls, self.fields)


class HSplit:
    """lazily evaluated result of s.split(sep[, maxsplit]) (sep: one concrete character)"""
    __slots__ = ('s', 'sep', 'maxsplit')

    def __init__(self, s, sep, maxsplit=None):
        self.s, self.sep, self.maxsplit = s, sep, maxsplit

    def copy(self):
        return HSplit(self.s, self.sep, self.maxsplit)
