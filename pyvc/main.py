import argparse
import json
import os
import subprocess
import sys
import time
import traceback

from . import driver as D


def argnames_fn(repo):
    import ast
    from .interp import Interp
    I = Interp(repo, D.VERIF)

    def f(qual):
        fn = I.find_function(qual)
        return [a.arg for a in fn[1].args.args] if fn else []
    return f


def run_rxdiff(res, repo, specs, maxlen):
    env = dict(os.environ)
    env.pop('PYTHONPATH', None)
    env['PYTHONWARNINGS'] = 'ignore'
    t0 = time.time()
    p = subprocess.run([D.VENV_PY, os.path.join(D.VERIF, 'pyvc', 'rxdiff.py'), repo, D.VERIF, str(maxlen)] + specs,
                       capture_output=True, text=True, timeout=1800, env=env)
    try:
        out = json.loads(p.stdout.strip().split('\n')[-1])
    except Exception:
        res.crashes.append('regex differential failed: ' + (p.stdout + p.stderr)[-400:])
        return
    res.bounded.append({'what': 'regex model vs CPython re (translation + assumption R2)', 'tool': 'bounded-exhaustive differential',
                        'bound': 'all strings over a boundary alphabet up to the stated length; every single code point for class patterns',
                        'evaluations': out['strings'], 'patterns': out['patterns'], 'disagreements': out['disagreements'],
                        'wall_s': out['wall_s']})
    if out['disagreements']:
        res.crashes.append('regex model disagrees with CPython re: %s' % json.dumps(out['disagreements'][:2]))


def run_ground(res, repo, task, findings):
    env = dict(os.environ)
    env.pop('PYTHONPATH', None)
    env['PYTHONWARNINGS'] = 'ignore'
    p = subprocess.run([D.VENV_PY, os.path.join(D.VERIF, 'pyvc', 'ground_native.py'), repo, D.VERIF, task],
                       capture_output=True, text=True, timeout=3000, env=env)
    try:
        out = json.loads(p.stdout.strip().split('\n')[-1])
    except Exception:
        res.crashes.append('ground task %s failed: %s' % (task, (p.stdout + p.stderr)[-600:]))
        return None
    viol = out.pop('violations', [])
    out['task'] = task
    out['exhaustive'] = True
    out['violations'] = len(viol)
    res.ground.append(out)
    new = []
    counts = {}
    for v in viol:
        known = [f for f in findings if f['property'] == res.pid and f.get('ground') == task and
                 all(v.get(k) == val for k, val in f.get('match', {}).items())]
        if known:
            fid = json.dumps(known[0].get('match', {}), sort_keys=True)
            counts[fid] = counts.get(fid, 0) + 1
            if counts[fid] > known[0].get('max_count', 10 ** 9):
                new.append(dict(v, beyond_known_finding=known[0]['what'][:80]))   # more than the finding lists
                continue
            line = 'KNOWN-FINDING: property=%s %s' % (res.pid, known[0]['what'])
            if line not in res.known:
                res.known.append(line)
            res.excluded_by_known.append('ground:%s:%s' % (task, fid))
        else:
            new.append(v)
    if new:
        rdir = os.environ.get('PYVC_REPLAY_DIR') or os.path.join('replay')
        path = os.path.join(rdir, res.pid, 'ground-%s.json' % task)
        os.makedirs(os.path.join(D.VERIF, os.path.dirname(path)) if not os.path.isabs(path) else os.path.dirname(path), exist_ok=True)
        full = path if os.path.isabs(path) else os.path.join(D.VERIF, path)
        json.dump({'property': res.pid, 'obligation': 'ground:%s' % task, 'violations': new[:200],
                   'how': '/venv/bin/python pyvc/ground_native.py %s %s %s' % (repo, D.VERIF, task)}, open(full, 'w'), indent=1)
        res.violations.append({'obligation': 'ground:%s' % task, 'replay': path, 'confirmed': True,
                               'detail': '%d ground facts fail on the shipped configuration, first: %s' % (len(new), json.dumps(new[0])[:300]),
                               'witness': new[0]})
    return out


def run_frames(res, repo, rules, table, findings_known, replay=None, only_modules=None):
    """syntactic frame obligations: one obligation per (rule, module); a finding outside the allow-list refutes it"""
    from .frames import analyse
    from contracts.frames import allowed
    mods, fs = analyse(repo)
    fs = [f for f in fs if f.rule in rules]
    per = {}
    for m in mods:
        if only_modules and m not in only_modules:
            continue
        for r in rules:
            per[(r, m)] = []
    bad = []
    nallowed = 0
    for f in fs:
        why = allowed(f, table)
        if why is None:
            bad.append(f)
            per.setdefault((f.rule, f.module), []).append(f)
        else:
            nallowed += 1
    res.obligations += len(per)
    res.discharged += len([k for k, v in per.items() if not v])
    res.extra.setdefault('frames', []).append({'rules': list(rules), 'modules': len(mods), 'findings': len(fs), 'allowed': nallowed,
                                               'unlisted': [f.to_json() for f in bad][:20],
                                               'functions_analysed': sum(len(m.funcs) for m in mods.values())})
    for f in fs[:6]:
        if len(res.samples) < 12:
            res.samples.append({'obligation': f.name, 'status': 'allowed: ' + (allowed(f, table) or 'NO')[:80]})
    res.trusted.add('frame analysis is syntactic and name based (sound only without reflection: rule `reflection` checks getattr/setattr/__dict__/exec/eval/globals are absent)')
    for f in bad:
        known = [k for k in findings_known if k['property'] == res.pid and k.get('frames') and
                 k['frames'].get('rule') == f.rule and k['frames'].get('module') == f.module and k['frames'].get('function') == f.qual and
                 k['frames'].get('statement_contains', '') in f.to_json().get('statement', '')]
        if known:
            line = 'KNOWN-FINDING: property=%s %s' % (res.pid, known[0]['what'])
            if line not in res.known:
                res.known.append(line)
            res.excluded_by_known.append(f.name)
            key = (f.rule, f.module)
            per[key] = [x for x in per.get(key, []) if x is not f]
            if not per[key]:
                res.obligations -= 1      # the whole (rule, module) obligation is excluded by listed findings, not proved
                per[key] = None
            continue
        rdir = os.environ.get('PYVC_REPLAY_DIR') or 'replay'
        import hashlib
        path = os.path.join(rdir, res.pid, 'frames-%s-%s.json' % (f.rule, hashlib.sha1(f.name.encode()).hexdigest()[:8]))
        full = path if os.path.isabs(path) else os.path.join(D.VERIF, path)
        os.makedirs(os.path.dirname(full), exist_ok=True)
        spec = {'property': res.pid, 'obligation': f.name, 'finding': f.to_json(), 'verifier_output': f.detail}
        confirmed = False
        if replay and f.rule in replay:
            env = dict(os.environ)
            env.pop('PYTHONPATH', None)
            p = subprocess.run([D.VENV_PY, os.path.join(D.VERIF, 'pyvc', replay[f.rule]), repo], capture_output=True, text=True, timeout=900, env=env)
            try:
                out = json.loads(p.stdout.strip().split('\n')[-1])
                spec['native'] = out
                confirmed = bool(out.get('confirmed'))
            except Exception:
                spec['native'] = {'error': (p.stdout + p.stderr)[-300:]}
        json.dump(spec, open(full, 'w'), indent=1)
        res.violations.append({'obligation': f.name, 'replay': path, 'confirmed': confirmed,
                               'detail': '%s: %s (line %d of %s.py)' % (f.rule, f.detail, f.line, f.module), 'witness': f.to_json()})


def replace_chain(repo, qual):
    """the (pattern, replacement) sequence of the str.replace calls of a function, in evaluation order"""
    import ast
    from .interp import Interp
    I = Interp(repo, D.VERIF)
    fn = I.find_function(qual)
    if fn is None:
        return None
    chain = []

    def visit(e):
        if isinstance(e, ast.Call) and isinstance(e.func, ast.Attribute) and e.func.attr == 'replace':
            visit(e.func.value)
            if len(e.args) >= 2 and all(isinstance(a, ast.Constant) and isinstance(a.value, str) for a in e.args[:2]):
                chain.append((e.args[0].value, e.args[1].value))
            else:
                chain.append(('?', '?'))
            for a in e.args:
                visit(a)
            return
        for ch in ast.iter_child_nodes(e):
            visit(ch)
    for stmt in fn[1].body:
        visit(stmt)
    return chain


def run_lean(res, repo, lean_file, chains):
    t0 = time.time()
    p = subprocess.run(['lean', os.path.join(D.VERIF, lean_file)], capture_output=True, text=True, timeout=1800, cwd=D.VERIF)
    errs = [l for l in (p.stdout + p.stderr).split('\n') if ': error' in l]
    ok = p.returncode == 0 and not errs
    import re as _re
    thms = _re.findall(r'^theorem\s+(\S+)', open(os.path.join(D.VERIF, lean_file)).read(), _re.M)
    sorry = 'sorry' in open(os.path.join(D.VERIF, lean_file)).read()
    res.lemmas.append({'file': lean_file, 'theorems': thms, 'kernel_checked': ok and not sorry, 'wall_s': round(time.time() - t0, 1),
                       'checker': 'lean 4 (Mathlib)', 'errors': errs[:3]})
    if not ok or sorry:
        res.crashes.append('lemma library %s does not check: %s' % (lean_file, (errs or [p.stderr[-200:]])[0]))
        return
    res.obligations += len(thms)
    res.discharged += len(thms)
    res.solver['by_backend']['lean'] = res.solver['by_backend'].get('lean', 0) + len(thms)
    res.trusted.add("python's str.replace(c, w) with a one-character pattern is List.flatMap (if x = c then w else [x]) (transcription of the replace chain into Lean; the chain is re-extracted from the source and compared each run)")
    for qual, expected, thm in chains:
        got = replace_chain(repo, qual)
        res.obligations += 1
        name = 'lean-model#chain-matches-source@%s' % qual
        if got == [tuple(x) for x in expected]:
            res.discharged += 1
            if len(res.samples) < 14:
                res.samples.append({'obligation': name, 'status': 'discharged', 'theorem': thm, 'chain': got})
        else:
            # the Lean theorem no longer speaks about this code; the SMT obligations (len <= 3) decide
            res.undecided.append({'obligation': name, 'why': 'replace chain of the source %r differs from the chain of theorem %s %r' % (got, thm, expected)})


def run_taint(res, repo, cfg, findings):
    from .taint import Taint
    t = Taint(os.path.join(repo, cfg['file']), cfg['escape'], clean_names=cfg.get('clean_names', {}), clean_calls=cfg.get('clean_calls', {}))
    sites = t.write_sites()
    res.extra.setdefault('taint', []).append({'file': cfg['file'], 'write_sites': len(sites), 'dirty': [w for w in sites if not w['clean']]})
    res.trusted.add('taint analysis of %s is syntactic: a hole is clean when it is a literal, an integer conversion, or went through %s' % (cfg['file'], '/'.join(cfg['escape'])))
    for w in sites:
        res.obligations += 1
        allowed = [a for a in cfg.get('allow', []) if a[0] == w['function'] and set(w['dirty_holes']) <= set(a[1])]
        if w['clean'] or allowed:
            res.discharged += 1
            if len(res.samples) < 16 and not w['clean']:
                res.samples.append({'obligation': w['obligation'], 'status': 'allowed: ' + allowed[0][2]})
            continue
        rdir = os.environ.get('PYVC_REPLAY_DIR') or 'replay'
        import hashlib
        path = os.path.join(rdir, res.pid, 'taint-%s.json' % hashlib.sha1(w['obligation'].encode()).hexdigest()[:8])
        full = path if os.path.isabs(path) else os.path.join(D.VERIF, path)
        os.makedirs(os.path.dirname(full), exist_ok=True)
        spec = {'property': res.pid, 'obligation': w['obligation'], 'site': w, 'verifier_output': 'unescaped holes: %s' % w['dirty_holes']}
        confirmed = False
        if cfg.get('replay'):
            env = dict(os.environ)
            env.pop('PYTHONPATH', None)
            pr = subprocess.run([D.VENV_PY, os.path.join(D.VERIF, 'pyvc', cfg['replay']), repo], capture_output=True, text=True, timeout=900, env=env)
            try:
                out = json.loads(pr.stdout.strip().split('\n')[-1])
                spec['native'] = out
                confirmed = bool(out.get('confirmed'))
            except Exception:
                spec['native'] = {'error': (pr.stdout + pr.stderr)[-300:]}
        json.dump(spec, open(full, 'w'), indent=1)
        res.violations.append({'obligation': w['obligation'], 'replay': path, 'confirmed': confirmed,
                               'detail': 'line %d: unescaped value(s) %s reach the output' % (w['line'], w['dirty_holes']), 'witness': w})


def run_bounded(res, repo, spec, seed, tier):
    env = dict(os.environ)
    env.pop('PYTHONPATH', None)
    env['PYTHONWARNINGS'] = 'ignore'
    p = subprocess.run([D.VENV_PY, os.path.join(D.VERIF, 'pyvc', 'bounded_native.py'), repo, D.VERIF, spec, str(seed), tier],
                       capture_output=True, text=True, timeout=3000, env=env)
    try:
        out = json.loads(p.stdout.strip().split('\n')[-1])
    except Exception:
        res.crashes.append('bounded stand-in %s failed: %s' % (spec, (p.stdout + p.stderr)[-600:]))
        return
    res.bounded.append({'what': 'bounded stand-in (native evaluation of an assumed contract)', 'function': out.get('function'),
                        'tool': 'native run-time contract check under /venv/bin/python', 'bound': out.get('bound'),
                        'evaluations': out.get('evaluations'), 'failures': out.get('failures')})
    kf = [f for f in D.load_known_findings().get('findings', []) if f['property'] == res.pid and f.get('bounded') == spec.split(':')[-1]]
    fresh = []
    for fl in out.get('failures') or []:
        hit = [k for k in kf if k.get('detail_contains') and k['detail_contains'] in fl.get('detail', '')]
        if hit:
            line = 'KNOWN-FINDING: property=%s %s' % (res.pid, hit[0]['what'])
            if line not in res.known:
                res.known.append(line)
            res.excluded_by_known.append('bounded:%s:%s' % (spec.split(':')[-1], hit[0]['detail_contains']))
        else:
            fresh.append(fl)
    out['failures'] = fresh
    if out.get('failures'):
        rdir = os.environ.get('PYVC_REPLAY_DIR') or 'replay'
        path = os.path.join(rdir, res.pid, 'bounded-%s.json' % spec.split(':')[-1])
        full = path if os.path.isabs(path) else os.path.join(D.VERIF, path)
        os.makedirs(os.path.dirname(full), exist_ok=True)
        json.dump({'property': res.pid, 'obligation': 'bounded:%s' % out.get('function'), 'failures': out['failures'],
                   'how': '/venv/bin/python pyvc/bounded_native.py %s %s %s %s %s' % (repo, D.VERIF, spec, seed, tier)}, open(full, 'w'), indent=1)
        res.violations.append({'obligation': 'bounded:%s' % out.get('function'), 'replay': path, 'confirmed': True,
                               'detail': 'assumed contract fails natively: %s' % json.dumps(out['failures'][0])[:300],
                               'witness': out['failures'][0]})


def main(argv):
    ap = argparse.ArgumentParser()
    ap.add_argument('prop')
    ap.add_argument('--tier', default=os.environ.get('VERIF_TIER', 'quick'))
    ap.add_argument('--repo', default='/repo')
    ap.add_argument('--replay')
    ap.add_argument('--procs', type=int, default=16)
    a = ap.parse_args(argv)
    seed = int(os.environ.get('VERIF_SEED', '0') or 0)
    os.environ['VERIF_TIER'] = a.tier     # contracts may choose tier dependent case splits
    t0 = time.time()
    try:
        D.load_contracts()
        import props
        from .contract import REGISTRY
        if a.replay:
            v = D.run_native_replay(os.path.abspath(a.replay))
            print(json.dumps(v, indent=1))
            spec = json.load(open(a.replay))
            if v.get('confirmed'):
                print('VIOLATION property=%s replay=%s' % (spec.get('property', a.prop), a.replay))
                return 1
            return 0
        P = props.PROPS[a.prop]
        res = D.Result(a.prop, a.tier, seed)
        from .verify import verify_function
        opts = {'procs': a.procs, 'z3_ms': 10000 if a.tier == 'quick' else 60000,
                'cvc5_ms': 10000 if a.tier == 'quick' else 60000, 'argnames': argnames_fn(a.repo)}
        opts['skip_kinds'] = P.get('skip_obligation_kinds')
        opts['func_budget_s'] = 1500 if a.tier == 'quick' else 6000
        kf = D.load_known_findings()
        findings = kf.get('findings', [])
        for qual in P.get('functions', []):
            rep = verify_function(a.repo, D.VERIF, qual, opts)
            D.process_function(res, rep, REGISTRY[qual], a.repo, findings, opts)
        for q in P.get('assumed_contracts', []):
            c = REGISTRY[q]
            res.assumptions.add('ASSUMED CONTRACT (not verified here) %s: requires %s ensures %s -- %s' % (q, c.requires, c.ensures, c.note))
        if P.get('crosscheck', True):
            from .crosscheck import crosscheck
            cc = []
            for qual in P.get('crosscheck_functions', P.get('functions', [])):
                try:
                    r = crosscheck(a.repo, D.VERIF, qual, n=200 if a.tier == 'quick' else 2000, seed=seed)
                except Exception as ex:
                    r = {'function': qual, 'skipped': 'harness: %r' % (ex,)}
                cc.append(r)
                if r.get('n_disagreements'):
                    res.crashes.append('semantics model disagrees with CPython on %s: %s' % (qual, json.dumps(r['disagreements'][:1], default=str)))
            res.extra['cpython_crosscheck'] = cc
        if P.get('rxdiff'):
            run_rxdiff(res, a.repo, P['rxdiff'], 7 if a.tier == 'quick' else 9)
        if P.get('lean'):
            from contracts import escape as CE
            run_lean(res, a.repo, P['lean'], [c for c in CE.LEAN_CHAINS if c[0] in P.get('functions', [])])
        if P.get('taint'):
            run_taint(res, a.repo, P['taint'], findings)
        if P.get('frames'):
            from contracts import frames as CF
            fr = P['frames']
            run_frames(res, a.repo, fr['rules'], getattr(CF, fr['allow']), findings, fr.get('replay'), fr.get('modules'))
        for spec in P.get('bounded', []):
            run_bounded(res, a.repo, spec, seed, a.tier)
        for task in P.get('ground', []):
            run_ground(res, a.repo, task, findings)
        for hook in P.get('extra', []):
            hook(res, a, opts)
        cmd = './check %s --tier %s' % (a.prop, a.tier)
        return D.finish(res, P['level'], t0, cmd, P.get('explanation', ''))
    except Exception:
        traceback.print_exc()
        print('CHECKER-ERROR property=%s crashed' % a.prop)
        return 3
