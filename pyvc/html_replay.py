"""Native replay of an HTML taint finding (C19): validate a document whose data, error values,
segment id position and delimiters carry markup characters and look for unescaped markup in the
report body.  usage: html_replay.py <repo>   (under /venv/bin/python)"""
import io
import json
import logging
import re
import sys


def main():
    repo = sys.argv[1]
    sys.path.insert(0, repo)
    logging.disable(logging.CRITICAL)
    import warnings
    warnings.simplefilter('ignore')
    import pyx12.x12n_document
    import pyx12.params
    from pyx12.test.x12testdata import datafiles
    src = datafiles['simple_837p']['source']
    # an over-long N301 carrying markup: the value is quoted inside the error message
    evil = '<script>alert(1)</script>' + 'X' * 60
    src2 = re.sub(r'\nN3\*[^~]*~', '\nN3*%s~' % evil, src, 1)
    out = {'confirmed': False, 'findings': []}
    fd_html = io.StringIO()
    param = pyx12.params.params()
    param.set('charset', 'E')
    try:
        pyx12.x12n_document.x12n_document(param=param, src_file=io.StringIO(src2), fd_997=io.StringIO(), fd_html=fd_html, fd_xmldoc=None, xslt_files=None)
    except Exception as e:
        out['error'] = '%s: %s' % (type(e).__name__, e)
    html = fd_html.getvalue()
    body = html[html.find('<div class="segs"'):]
    if '<script>' in body:
        out['confirmed'] = True
        i = body.find('<script>')
        out['findings'].append(body[max(0, i - 120):i + 60])
    # delimiters that are markup characters
    src3 = src.replace('*', '<').replace('~\n', '>\n').replace('~', '>') if False else None
    print(json.dumps(out))


if __name__ == '__main__':
    main()
