"""Loops cut at invariants.

spec (from the contract, by loop ordinal):
  invariant : [expr]      python expressions over the locals (and `self`), plus the index
                          name for `for` loops
  index     : 'k'         name of the ghost iteration counter of a `for` loop (0..n)
  modifies  : [names]     locals and 'self.field' names the body may change; everything
                          else is checked to be untouched after one symbolic iteration
  types     : {name: T}   type of a havoced name when its shape cannot be read off the
                          current value
  decreases : expr        integer expression that must decrease and stay >= 0 (while loops)
"""
import ast
import z3

from .vals import *
from .tys import *
from .interp import Raise, EngineLimit, NORMAL, SRange, UNBOUND, stmt_text
from . import contracts_rt as C


def _scope(I, st):
    fq = st.env.get('__func__')
    c = C.REGISTRY.get(fq)
    return getattr(c, 'scope', None) if c else None


def _bindings0(st, extra=None):
    b = {k: v for k, v in st.env.items() if not k.startswith('__') and v is not UNBOUND}
    if extra:
        b.update(extra)
    return b


def shape_type(I, st, v):
    if isinstance(v, SInt):
        return Int
    if isinstance(v, SBool):
        return Bool
    if isinstance(v, SStr):
        return Str
    if isinstance(v, SNone):
        return NoneT
    if isinstance(v, STuple):
        return Tup(*[shape_type(I, st, x) for x in v.items])
    if isinstance(v, Ref):
        o = st.heap[v.addr]
        if isinstance(o, HSeq):
            return ListOf(o.ety)
    if isinstance(v, SOpaque):
        return Opaque(v.tname)
    if isinstance(v, SIte):
        ta, tb = shape_type(I, st, v.a), shape_type(I, st, v.b)
        if ta is None or tb is None:
            return None
        if repr(ta) == repr(tb):
            return ta
        if ta is NoneT:
            return Opt(tb)
        if tb is NoneT:
            return Opt(ta)
        return None
    return None


def havoc(I, st, spec, node):
    names = spec.get('modifies')
    if names is None:
        names = sorted(n.id for n in ast.walk(node) if isinstance(n, ast.Name) and isinstance(n.ctx, ast.Store))
        for n in ast.walk(node):
            if isinstance(n, ast.Attribute) and isinstance(n.ctx, (ast.Store, ast.Del)):
                raise EngineLimit('loop writes attributes: declare modifies')
    types = spec.get('types', {})
    for nm in names:
        if nm.startswith('self.'):
            fld = nm[5:]
            sref = st.env.get('self')
            decl = None
            cfun = C.REGISTRY.get(st.env.get('__func__'))
            dt = cfun.self_type if cfun is not None else None
            while '.' in fld:          # self.a.b : a field of an object held in a field
                head, fld = fld.split('.', 1)
                sref = st.heap[sref.addr].fields.get(head)
                dt = dt.fields.get(head) if dt is not None and hasattr(dt, 'fields') else None
                if not isinstance(sref, Ref):
                    raise EngineLimit('cannot havoc %s: %s is not an object' % (nm, head))
            o = st.heap[sref.addr]
            cur = o.fields.get(fld)
            if dt is not None and hasattr(dt, 'fields'):
                decl = dt.fields.get(fld)
            t = types.get(nm) or decl or shape_type(I, st, cur)
            if t is None:
                raise EngineLimit('cannot havoc %s: give its type' % nm)
            outs = list(C.fresh_value(I, st, t, 'lp_' + fld, lazy=True))
            if len(outs) != 1:
                raise EngineLimit('havoc of optional %s' % nm)
            o2 = st.mut(sref.addr)
            o2.fields[fld] = outs[0][1]
        else:
            cur = st.env.get(nm, UNBOUND)
            if cur is UNBOUND and nm not in types:
                continue   # first assigned inside the loop
            t = types.get(nm) or shape_type(I, st, cur)
            if t is None:
                raise EngineLimit('cannot havoc %s: give its type' % nm)
            outs = list(C.fresh_value(I, st, t, 'lp_' + nm, lazy=True))
            if len(outs) != 1:
                raise EngineLimit('havoc of optional %s' % nm)
            st.env[nm] = outs[0][1]
    return names


def _snapshot_frame(st):
    snap = {}
    for k, v in st.env.items():
        if not k.startswith('__'):
            snap[('L', k)] = v
    for addr, o in st.heap.items():
        if isinstance(o, HObj):
            for f, v in o.fields.items():
                snap[('F', addr, f)] = v
        elif isinstance(o, HSeq):
            snap[('S', addr)] = o.e
        elif isinstance(o, HList):
            snap[('H', addr)] = tuple(id(x) for x in o.items)
    return snap


def _same(a, b):
    if a is b:
        return True
    if isinstance(a, (SInt, SBool)) and type(a) == type(b):
        return a.e.eq(b.e)
    if isinstance(a, SStr) and isinstance(b, SStr):
        if a.is_vec() and b.is_vec():
            return len(a.chars) == len(b.chars) and all(x.eq(y) for x, y in zip(a.chars, b.chars))
        if not a.is_vec() and not b.is_vec():
            return a.expr.eq(b.expr)
    if isinstance(a, SNone) and isinstance(b, SNone):
        return True
    if isinstance(a, Ref) and isinstance(b, Ref):
        return a.addr == b.addr
    if isinstance(a, STuple) and isinstance(b, STuple):
        return len(a.items) == len(b.items) and all(_same(x, y) for x, y in zip(a.items, b.items))
    if isinstance(a, z3.ExprRef) and isinstance(b, z3.ExprRef):
        return a.eq(b)
    if isinstance(a, tuple) and isinstance(b, tuple):
        return a == b
    return False


def _check_frame(I, before, st, names, node, extra_ok=()):
    after = _snapshot_frame(st)
    declared = set()
    sref = st.env.get('self')
    for nm in names:
        if nm.startswith('self.') and isinstance(sref, Ref):
            r0, fld = sref, nm[5:]
            while '.' in fld and isinstance(r0, Ref):
                head, fld = fld.split('.', 1)
                r0 = st.heap[r0.addr].fields.get(head)
            if not isinstance(r0, Ref):
                continue
            declared.add(('F', r0.addr, fld))
            v = st.heap[r0.addr].fields.get(fld)
            if isinstance(v, Ref):
                declared.add(('S', v.addr))
                declared.add(('H', v.addr))
        else:
            declared.add(('L', nm))
            v = st.env.get(nm)
            if isinstance(v, Ref):
                declared.add(('S', v.addr))
                declared.add(('H', v.addr))
    # objects reachable from a declared field before the iteration count as declared too
    for k, v in before.items():
        if k in declared and isinstance(v, Ref):
            declared.add(('S', v.addr))
            declared.add(('H', v.addr))
    for k, v in before.items():
        if k in declared or k[0] == 'L' and k[1] in extra_ok:
            continue
        if k not in after:
            continue
        if not _same(v, after[k]):
            raise EngineLimit('loop frame: %r changed by the body but is not in modifies (%s)' % (k, stmt_text(node)))
    for k in after:
        if k not in before and k[0] == 'L' and k not in declared and k[1] not in extra_ok:
            # a local first assigned in the body: it is dead after the loop unless declared
            pass


def eval_ghosts(I, spec, st, scope):
    g = {}
    for name, expr in (spec.get('ghost') or {}).items():
        outs = list(C.eval_forks(I, expr, _bindings0(st), st, scope))
        if len(outs) != 1 or isinstance(outs[0][1], Raise):
            raise EngineLimit('loop ghost %s must be a simple total expression' % name)
        st1, v = outs[0]
        g[name] = C.snapshot_value(I, st1, st, v)
    return g


def havoc_ghosts(I, spec, st, ghosts):
    """ghost variables that are updated per iteration are arbitrary at the loop head"""
    out = dict(ghosts)
    for name in (spec.get('ghost_update') or {}):
        t = (spec.get('types') or {}).get(name) or shape_type(I, st, ghosts[name])
        if t is None:
            raise EngineLimit('cannot havoc ghost %s: give its type' % name)
        outs = list(C.fresh_value(I, st, t, 'gh_' + name))
        out[name] = outs[0][1]
    return out


def update_ghosts(I, spec, st, ghosts, scope, extra=None):
    out = dict(ghosts)
    for name, expr in (spec.get('ghost_update') or {}).items():
        b = _bindings0(st, extra)
        b.update(ghosts)
        outs = list(C.eval_forks(I, expr, b, st, scope))
        if len(outs) != 1 or isinstance(outs[0][1], Raise):
            raise EngineLimit('ghost update %s must be a simple total expression' % name)
        out[name] = C.snapshot_value(I, outs[0][0], st, outs[0][1])
    return out


def while_with_invariant(I, node, spec, st):
    scope = _scope(I, st)
    invs = spec.get('invariant', [])
    g0 = eval_ghosts(I, spec, st, scope)

    def B(st, g, extra=None):
        b = _bindings0(st, extra)
        b.update(g)
        return b
    for k, inv in enumerate(invs):
        C.prove_expr(I, inv, B(st, g0), st, scope, 'inv-entry', node=node,
                     name='%s#inv-entry[%d]@%s' % (I.cur_func, k, stmt_text(node)), note=inv)
    names = havoc(I, st, spec, node)
    gh = havoc_ghosts(I, spec, st, g0)
    for inv in invs:
        C.assume_expr(I, inv, B(st, gh), st, scope)
    if not I.feasible(st.pc):
        return
    dec = spec.get('decreases')
    for st1, c in I.ev(node.test, st):
        if isinstance(c, Raise):
            yield st1, ('raise', c.exc)
            continue
        for st2, b in I.branch(st1, c):
            if not b:
                if node.orelse:
                    yield from I.ex(node.orelse, st2)
                else:
                    yield st2, NORMAL
                continue
            gn = update_ghosts(I, spec, st2, gh, scope)
            st2.ghost = dict(st2.ghost)
            st2.ghost['__loop_ghosts__'] = dict(gn)
            st2.ghost['__ycount__'] = 0
            before = _snapshot_frame(st2)
            d0 = None
            if dec:
                outs = list(C.eval_forks(I, dec, B(st2, gh), st2, scope))
                if len(outs) != 1:
                    raise EngineLimit('decreases must be single-path')
                d0 = I.as_int(outs[0][1])
            for st3, sig in I.ex(node.body, st2):
                if sig is NORMAL or sig[0] == 'continue':
                    _check_frame(I, before, st3, names, node)
                    yc = {'yields_in_iteration': SInt(z3.IntVal(st3.ghost.get('__ycount__', 0)))}
                    for k, inv in enumerate(spec.get('step', [])):
                        C.prove_expr(I, inv, B(st3, gn, yc), st3, scope, 'loop-step', node=node,
                                     name='%s#loop-step[%d]@%s' % (I.cur_func, k, stmt_text(node)), note=inv)
                    for k, inv in enumerate(invs):
                        C.prove_expr(I, inv, B(st3, gn), st3, scope, 'inv-preserve', node=node,
                                     name='%s#inv-preserve[%d]@%s' % (I.cur_func, k, stmt_text(node)), note=inv)
                    if dec:
                        outs = list(C.eval_forks(I, dec, B(st3, gn), st3, scope))
                        d1 = I.as_int(outs[0][1])
                        I.oblige(st3, 'decreases', z3.And(d0 >= 0, d1 < d0), node=node,
                                 name='%s#decreases@%s' % (I.cur_func, stmt_text(node)))
                elif sig[0] == 'break':
                    _check_frame(I, before, st3, names, node)
                    yield st3, NORMAL
                else:
                    yield st3, sig


def iter_model(I, st, it):
    """-> (n: z3 Int length, elem(k) -> value) for a symbolic iterable"""
    if isinstance(it, Ref):
        o = st.heap[it.addr]
        if isinstance(o, HSeq):
            e, ety = o.e, o.ety
            return z3.Length(e), (lambda k: from_z(e[k], ety))
        if isinstance(o, HList):
            items = list(o.items)
            n = len(items)

            def elem(k):
                raise EngineLimit('invariant loop over a concrete list: use unroll')
            return z3.IntVal(n), elem
    if isinstance(it, SRange):
        a, b, s = it.a, it.b, it.s
        sc = SInt(s).conc()
        if sc == 1:
            n = z3.If(b - a > 0, b - a, 0)
            return n, (lambda k: SInt(a + k))
        if sc == -1:
            n = z3.If(a - b > 0, a - b, 0)
            return n, (lambda k: SInt(a - k))
        raise EngineLimit('range step')
    if isinstance(it, SStr) and not it.is_vec():
        e = it.expr
        return z3.Length(e), (lambda k: SStr(expr=z3.SubString(e, k, 1)))
    raise EngineLimit('for loop over %r' % (it,))


def for_with_invariant(I, node, spec, it, st):
    scope = _scope(I, st)
    invs = spec.get('invariant', [])
    idx = spec.get('index', '__k')
    if spec.get('elements') is not None:
        # iteration over an abstract source (e.g. a generator object under contract): unknown number of
        # items, each an arbitrary value of the declared type satisfying `elements_assume`
        n = I.fresh('n_items', z3.IntSort())
        st.pc.append(n >= 0)
        ety = spec['elements']
        st.ghost = dict(st.ghost)
        if st.ghost.get('__yielded__') is not None:
            st.ghost['__yielded__'] = 'abstract'

        def elem(k, _cache={}):
            key = k.get_id() if hasattr(k, 'get_id') else k
            if key not in _cache:
                outs = list(C.fresh_value(I, st, ety, 'item'))
                _cache[key] = (outs[0][1], k)
            return _cache[key][0]
    else:
        n, elem = iter_model(I, st, it)
    tnames = [x.id for x in ast.walk(node.target) if isinstance(x, ast.Name)]
    pre_target = {t: st.env.get(t, UNBOUND) for t in tnames}
    ghosts = eval_ghosts(I, spec, st, scope)
    def _bindings(st, extra=None, _g=ghosts):
        b = _bindings0(st, extra)
        b.update(_g)
        return b
    for k, inv in enumerate(invs):
        C.prove_expr(I, inv, _bindings(st, {idx: SInt(0)}), st, scope, 'inv-entry', node=node,
                     name='%s#inv-entry[%d]@%s' % (I.cur_func, k, stmt_text(node)), note=inv)
    names = havoc(I, st, dict(spec, modifies=[x for x in (spec.get('modifies') or
                  sorted(set(n_.id for n_ in ast.walk(node) if isinstance(n_, ast.Name) and isinstance(n_.ctx, ast.Store))))
                  if x not in tnames]), node)
    kv = I.fresh('it_' + idx, z3.IntSort())
    st.assume(z3.And(kv >= 0, kv <= n))
    for inv in invs:
        C.assume_expr(I, inv, _bindings(st, {idx: SInt(kv)}), st, scope)
    if not I.feasible(st.pc):
        return
    if isinstance(it, Ref) and isinstance(st.heap[it.addr], HSeq):
        # prefix-snoc fact of sequences (valid; self-checked): l[:k+1] == l[:k] ++ [l[k]] for k < len(l)
        e = st.heap[it.addr].e
        st.pc.append(z3.Implies(kv < n, z3.Extract(e, 0, kv + 1) == z3.Concat(z3.Extract(e, 0, kv), z3.Unit(e[kv]))))
        I.trusted.add('lemma instance: l[:k+1] == l[:k] ++ [l[k]] for k < len(l) (valid in the sequence theory; self-checked)')
    for st1, more in I.split(st, kv < n):
        if not more:
            # normal exit after n iterations: the target keeps its last value
            for st2, nz in I.split(st1, n > 0):
                if nz:
                    sigs = list(I.assign_target(node.target, elem(n - 1), st2))
                    for st3, sg in sigs:
                        if sg is not NORMAL:
                            yield st3, sg
                        elif node.orelse:
                            yield from I.ex(node.orelse, st3)
                        else:
                            yield st3, NORMAL
                else:
                    for t, v in pre_target.items():
                        st2.env[t] = v
                    if node.orelse:
                        yield from I.ex(node.orelse, st2)
                    else:
                        yield st2, NORMAL
            continue
        for st2, sg in I.assign_target(node.target, elem(kv), st1):
            if sg is not NORMAL:
                yield st2, sg
                continue
            for ea in spec.get('elements_assume', []):
                C.assume_expr(I, ea, _bindings(st2), st2, scope)
            if not I.feasible(st2.pc):
                continue
            before = _snapshot_frame(st2)
            for st3, sig in I.ex(node.body, st2):
                if sig is NORMAL or sig[0] == 'continue':
                    _check_frame(I, before, st3, names, node, extra_ok=tnames)
                    for k, inv in enumerate(invs):
                        C.prove_expr(I, inv, _bindings(st3, {idx: SInt(kv + 1)}), st3, scope, 'inv-preserve', node=node,
                                     name='%s#inv-preserve[%d]@%s' % (I.cur_func, k, stmt_text(node)), note=inv)
                elif sig[0] == 'break':
                    _check_frame(I, before, st3, names, node, extra_ok=tnames)
                    st3.ghost = dict(st3.ghost)
                    yield st3, NORMAL
                else:
                    yield st3, sig
