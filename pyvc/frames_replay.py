"""Differential replay of a hash-order finding (C18): the same document is validated in fresh
processes that differ only in PYTHONHASHSEED; the acknowledgement bodies must be identical.
usage: frames_replay.py <repo> [nseeds]   -> JSON   (runs under /venv/bin/python)"""
import json
import os
import subprocess
import sys

CHILD = r'''
import sys, io, re, logging
sys.path.insert(0, sys.argv[1])
logging.disable(logging.CRITICAL)
import warnings; warnings.simplefilter('ignore')
import pyx12.x12n_document, pyx12.params
from pyx12.test.x12testdata import datafiles
src = datafiles['simple_837p']['source']
# a segment with two distinct segment-level errors: leading blanks (code 1) and a trailing element separator (SEG1 -> 8)
src = src.replace('N3*1234 SEASHORE BLVD~', '  N3*1234 SEASHORE BLVD*~', 1) if 'N3*1234 SEASHORE BLVD~' in src else re.sub(r'\nN3\*([^~]*)~', r'\n  N3*\1*~', src, 1)
out = {}
for kind in ('997', '999'):
    param = pyx12.params.params()
    if kind == '999':
        src2 = src.replace('*00401*', '*00501*').replace('004010X098A1', '005010X222A1')
    else:
        src2 = src
    fd_src = io.StringIO(src2)
    fd_997 = io.StringIO()
    try:
        pyx12.x12n_document.x12n_document(param=param, src_file=fd_src, fd_997=fd_997, fd_html=None, fd_xmldoc=None, xslt_files=None)
    except Exception as e:
        out[kind] = 'EXC %s' % type(e).__name__
        continue
    body = [s for s in fd_997.getvalue().replace('\n', '').split('~') if s[:3] in ('AK3', 'AK4', 'IK3', 'IK4', 'TA1', 'AK5', 'IK5')]
    out[kind] = body
import json
print(json.dumps(out))
'''


def main():
    repo = sys.argv[1]
    n = int(sys.argv[2]) if len(sys.argv) > 2 else 6
    res = {}
    for seed in range(1, n + 1):
        env = dict(os.environ)
        env['PYTHONHASHSEED'] = str(seed)
        env.pop('PYTHONPATH', None)
        p = subprocess.run(['/venv/bin/python', '-c', CHILD, repo], capture_output=True, text=True, env=env, cwd=repo, timeout=300)
        try:
            res[seed] = json.loads(p.stdout.strip().split('\n')[-1])
        except Exception:
            res[seed] = {'error': (p.stdout + p.stderr)[-300:]}
    distinct = {}
    for seed, r in res.items():
        distinct.setdefault(json.dumps(r, sort_keys=True), []).append(seed)
    out = {'seeds': n, 'distinct_outputs': len(distinct), 'groups': [{'seeds': v, 'output': json.loads(k)} for k, v in distinct.items()][:3],
           'confirmed': len(distinct) > 1}
    print(json.dumps(out))


if __name__ == '__main__':
    main()
