"""Sidecar contracts, keyed by the qualified name of the real function in /repo."""
from .tys import *

REGISTRY = {}
OPAQUE_TYPES = {}    # tname -> {'methods': {name: dict(args=[types], returns=type, ensures=[exprs])}, 'note': str}
FOLD_TYPES = {}      # step function name -> (state type, element type) for seq_fold
GROUP_MODELS = {}    # regex name or pattern -> 'specs.module.function' (functional model of capture groups)
_SCOPE = [None]


def set_scope(modname):
    """called at the top of a contracts file: names in its expressions resolve in that module"""
    _SCOPE[0] = modname


def abstract_type(name, methods, note=''):
    for m in methods.values():
        m.setdefault('scope', _SCOPE[0])
    OPAQUE_TYPES[name] = {'methods': methods, 'note': note}


class Const(T):
    """a fixed python constant as parameter value (used by `cases`)"""

    def __init__(self, py):
        self.py = py

    def __repr__(self):
        return 'Const(%r)' % (self.py,)



class Contract:
    def __init__(self, qual, params=None, self_type=None, returns=None, requires=(), ensures=(),
                 raises=None, cases=None, split_len=None, loops=None, inline=(), use=(),
                 serves=(), modifies=None, ghost=None, build=None, pure=False, exc_ensures=None,
                 note='', old=(), assume_only=False, result_type=None, abstract_calls=None,
                 result_cases=None, tactics=(), opaque=(), type_cases=(), split_on=(), mutates=(), options=None, yield_ensures=(), alias=None):
        self.qual = qual
        self.params = params or {}          # name -> type
        self.self_type = self_type          # Obj(...) for methods
        self.returns = returns
        self.requires = list(requires)      # python expression strings
        self.ensures = list(ensures)        # python expression strings (may use result, old_<name>)
        # raises: dict ExcName -> condition expression string (when it MAY escape); {} = total
        self.raises = {} if raises is None else dict(raises)
        self.exc_ensures = exc_ensures or {}  # ExcName -> [exprs] that hold when it escapes
        self.cases = cases or {}            # param -> list of concrete python values (complete split)
        self.split_len = split_len or {}    # param -> k  (vector strings of len 0..k + residual)
        self.loops = loops or {}            # loop ordinal -> dict(invariant=[..], decreases=expr, modifies=[names])
        self.inline = set(inline)           # callee qualnames executed inline
        self.use = set(use)                 # callee qualnames used by contract
        self.serves = list(serves)
        self.modifies = modifies            # list of field names of self that may change (frame); None = any
        self.ghost = ghost or {}
        self.build = build                  # name of native builder in replay helpers
        self.pure = pure
        self.note = note
        self.old = list(old)                # expressions snapshotted at entry: ('name', 'expr')
        self.assume_only = assume_only      # contract is an assumption (external / unverified callee)
        self.result_type = result_type      # type of result when used as callee summary
        self.abstract_calls = abstract_calls or {}
        self.result_cases = result_cases
        self.tactics = list(tactics)    # [{'when': {param: [values]}, 'split_len': {...}, 'opaque': [...]}]
        self.type_cases = list(type_cases)  # [(label, {param: type})]: alternative shapes of the inputs (complete split)
        self.split_on = list(split_on)  # boolean expressions; one case each, proved exhaustive (Or valid under requires)
        self.mutates = list(mutates)    # parameters (mutable abstract objects) whose value the function may change
        self.options = dict(options or {})   # engine options for this function (e.g. abstract_vec_split)
        self.yield_ensures = list(yield_ensures)   # generator: obligations at every yield (locals + yielded_value)
        self.alias = dict(alias or {})   # callee qualname -> key of the contract to use for it in THIS function
        self.opaque = list(opaque)      # spec functions kept as uninterpreted functions (not unfolded)
        self.scope = _SCOPE[0]
        REGISTRY[qual] = self


def contract(qual, **kw):
    return Contract(qual, **kw)
