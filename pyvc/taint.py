"""Taint obligations for output writers (C19 HTML): every hole of every fd.write(...) must be a
literal, an integer conversion, or a value that went through the escaping function (directly, via a
local variable all of whose assignments are clean, or via a helper whose return value is clean).
Syntactic and conservative; one obligation per write site."""
import ast
import os


def text(n):
    try:
        return ast.unparse(n).split('\n')[0][:100]
    except Exception:
        return type(n).__name__


class Taint:
    def __init__(self, path, escape_funcs, clean_names=(), clean_calls=(), int_formats=('%i', '%d')):
        self.tree = ast.parse(open(path, encoding='utf-8').read())
        self.escape = set(escape_funcs)
        self.clean_names = dict(clean_names)      # name -> reason
        self.clean_calls = dict(clean_calls)      # dotted call name -> reason
        self.funcs = {}
        for n in ast.walk(self.tree):
            if isinstance(n, ast.FunctionDef):
                self.funcs[n.name] = n
        self._ret_clean = {}

    def call_name(self, c):
        f = c.func
        if isinstance(f, ast.Name):
            return f.id
        if isinstance(f, ast.Attribute):
            base = f.value.id if isinstance(f.value, ast.Name) else ''
            return (base + '.' if base else '') + f.attr
        return ''

    def returns_clean(self, fname, depth=0):
        """None if the helper's return value is not clean; else the set of its parameters that reach
        the return value unescaped (those must be clean at every call site)"""
        if fname in self._ret_clean:
            return self._ret_clean[fname]
        f = self.funcs.get(fname)
        if f is None or depth > 10:
            return None
        self._ret_clean[fname] = None
        ok = True
        self._raw = getattr(self, '_raw', [])
        self._raw.append(set())
        for n in ast.walk(f):
            if isinstance(n, ast.Return) and n.value is not None:
                if not self.clean(n.value, f, depth + 1):
                    ok = False
        raw = self._raw.pop()
        self._ret_clean[fname] = raw if ok else None
        return self._ret_clean[fname]

    def clean(self, e, fn, depth=0):
        if isinstance(e, ast.Constant):
            return True
        if isinstance(e, ast.Call):
            nm = self.call_name(e)
            short = nm.split('.')[-1]
            if short in self.escape:
                return True
            if nm in self.clean_calls or short in self.clean_calls:
                return True
            if short in self.funcs and nm.startswith(('self.', '')) and short not in self.escape:
                # helper of the same module: clean if its return value is clean given clean values for the
                # parameters that reach it unescaped
                raw = self.returns_clean(short, depth)
                if raw is not None:
                    params = [a.arg for a in self.funcs[short].args.args]
                    if params and params[0] == 'self':
                        params = params[1:]
                    return all(self.clean(a, fn, depth + 1) for p_, a in zip(params, e.args) if p_ in raw)
            if short == 'join' and isinstance(e.func, ast.Attribute):
                return self.clean(e.func.value, fn, depth + 1) and all(self.clean(a, fn, depth + 1) for a in e.args)
            return False
        if isinstance(e, ast.BinOp) and isinstance(e.op, ast.Add):
            return self.clean(e.left, fn, depth) and self.clean(e.right, fn, depth)
        if isinstance(e, ast.BinOp) and isinstance(e.op, ast.Mod) and isinstance(e.left, ast.Constant):
            return self.holes_clean(e, fn, depth)[0]
        if isinstance(e, (ast.Tuple, ast.List)):
            return all(self.clean(x, fn, depth) for x in e.elts)
        if isinstance(e, ast.Name):
            if e.id in self.clean_names:
                return True
            # parameter of the helper being analysed: judged at the call site
            if fn is not None and e.id in [a.arg for a in fn.args.args] and depth > 0 and getattr(self, '_raw', None):
                self._raw[-1].add(e.id)
                return True
            # local: every assignment / append into it must be clean
            assigns = []
            for n in ast.walk(fn) if fn is not None else []:
                if isinstance(n, ast.Assign):
                    for t in n.targets:
                        if isinstance(t, ast.Name) and t.id == e.id:
                            assigns.append(n.value)
                if isinstance(n, ast.Call) and isinstance(n.func, ast.Attribute) and n.func.attr == 'append' and \
                        isinstance(n.func.value, ast.Name) and n.func.value.id == e.id:
                    assigns += n.args
                if isinstance(n, ast.Call) and isinstance(n.func, ast.Attribute) and n.func.attr == 'append' and \
                        isinstance(n.func.value, ast.Subscript) and isinstance(n.func.value.value, ast.Name) and n.func.value.value.id == e.id:
                    assigns += n.args
                if isinstance(n, (ast.For,)) and isinstance(n.target, ast.Name) and n.target.id == e.id:
                    assigns.append(n.iter)
            if not assigns or depth > 14:
                return False
            key = (fn.name if fn is not None else '', e.id)
            vis = self.__dict__.setdefault('_visiting', set())
            if key in vis:
                return True     # coinductive: clean if every assignment is clean assuming the variable itself is
            vis.add(key)
            try:
                return all(self.clean(a, fn, depth + 1) for a in assigns)
            finally:
                vis.discard(key)
        if isinstance(e, ast.Attribute):
            nm = text(e)
            return nm in self.clean_names
        if isinstance(e, ast.IfExp):
            return self.clean(e.body, fn, depth) and self.clean(e.orelse, fn, depth)
        return False

    def holes_clean(self, e, fn, depth=0):
        """'fmt' % (a, b): -> (all clean, [dirty holes])"""
        import re
        fmt = e.left.value
        specs = re.findall(r'%[-0 +#]*\d*(?:\.\d+)?([sdirx%])', fmt)
        specs = [s for s in specs if s != '%']
        args = list(e.right.elts) if isinstance(e.right, ast.Tuple) else [e.right]
        dirty = []
        for k, a in enumerate(args):
            conv = specs[k] if k < len(specs) else 's'
            if conv in 'dix':
                continue       # %i / %d raise on non-integers: an integer cannot carry markup
            if not self.clean(a, fn, depth + 1):
                dirty.append(text(a))
        return (not dirty, dirty)

    def write_sites(self, writer_attr='fd'):
        out = []
        for fname, f in self.funcs.items():
            for n in ast.walk(f):
                if isinstance(n, ast.Call) and isinstance(n.func, ast.Attribute) and n.func.attr == 'write' and \
                        isinstance(n.func.value, ast.Attribute) and n.func.value.attr == writer_attr:
                    arg = n.args[0]
                    if isinstance(arg, ast.BinOp) and isinstance(arg.op, ast.Mod) and isinstance(arg.left, ast.Constant):
                        ok, dirty = self.holes_clean(arg, f)
                    else:
                        ok = self.clean(arg, f)
                        dirty = [] if ok else [text(arg)]
                    out.append({'function': fname, 'line': n.lineno, 'statement': text(n), 'clean': ok, 'dirty_holes': dirty,
                                'obligation': 'taint#write@%s: %s' % (fname, text(n)[:70])})
        return out
