"""Frame / determinism obligations discharged by a conservative SYNTACTIC analysis of the
real AST (DESIGN 3.8).  Name based, no SMT: it can only over-approximate, so every finding
is either in the allow-list (with a reason) or is reported.

Rules (each finding gets a stable name  frames#<rule>@<module>.<qualname>: <statement>):
  global-write     `global` statement, store into a module/class attribute from a function
  modconst-mut     mutation of a module-level or class-level mutable object from a function
  default-mut      a mutable default argument is mutated, or escapes into an attribute that is
                   mutated anywhere in the package, or is handed to a callee that mutates it
  nondet           time / random / os.environ / id() / hash() / uuid / datetime.now outside the allow-list
  hash-order       iteration order of a set reaches a value (list(set(..)) not sorted, for .. in set(..))
  reflection       getattr/setattr/delattr/__dict__/exec/eval/globals()/locals()/vars()
  delim-read       (C12) read of a delimiter attribute / get_term() / delimiter-defaulted format()
                   outside the tokeniser, the Segment classes and the writers
"""
import ast
import os

MUT_METHODS = {'append', 'extend', 'insert', 'pop', 'remove', 'clear', 'sort', 'reverse', 'update', 'add', 'discard',
               'setdefault', 'popitem', '__setitem__', '__delitem__'}
NONDET_CALLS = {('time', None), ('random', None), ('uuid', None), ('datetime', 'now'), ('datetime', 'today'),
                ('os', 'getpid'), ('os', 'urandom'), ('tempfile', None)}
DELIM_ATTRS = {'seg_term', 'ele_term', 'subele_term', 'repetition_term', 'seg_term_orig', 'ele_term_orig',
               'subele_term_orig', 'eol'}


def text(node):
    try:
        t = ast.unparse(node).split('\n')[0]
    except Exception:
        t = type(node).__name__
    return t[:90]


class Finding:
    def __init__(self, rule, module, qual, node, detail=''):
        self.rule, self.module, self.qual, self.detail = rule, module, qual, detail
        self.stmt = text(node)
        self.line = getattr(node, 'lineno', 0)
        self.name = 'frames#%s@%s.%s: %s' % (rule, module, qual, self.stmt)

    def to_json(self):
        return {'obligation': self.name, 'rule': self.rule, 'module': self.module, 'function': self.qual,
                'statement': self.stmt, 'line': self.line, 'detail': self.detail}


def is_mutable_literal(v):
    if isinstance(v, (ast.List, ast.Dict, ast.Set, ast.ListComp, ast.DictComp, ast.SetComp)):
        return True
    if isinstance(v, ast.Call) and isinstance(v.func, ast.Name) and v.func.id in ('list', 'dict', 'set', 'OrderedDict', 'defaultdict'):
        return True
    return False


class ModuleInfo:
    def __init__(self, name, path):
        self.name = name
        self.path = path
        self.tree = ast.parse(open(path, encoding='utf-8').read())
        self.mod_mutables = set()
        self.mod_names = set()
        self.classes = {}
        self.imports = {}
        self.funcs = []     # (qual, FunctionDef, classname|None)
        for n in self.tree.body:
            if isinstance(n, ast.Assign):
                for t in n.targets:
                    if isinstance(t, ast.Name):
                        self.mod_names.add(t.id)
                        if is_mutable_literal(n.value):
                            self.mod_mutables.add(t.id)
            elif isinstance(n, ast.Import):
                for a in n.names:
                    self.imports[(a.asname or a.name).split('.')[0]] = a.name
            elif isinstance(n, ast.ImportFrom):
                for a in n.names:
                    self.imports[a.asname or a.name] = (n.module or '') + '.' + a.name
            elif isinstance(n, ast.FunctionDef):
                self.funcs.append((n.name, n, None))
            elif isinstance(n, ast.ClassDef):
                cm = set()
                for b in n.body:
                    if isinstance(b, ast.Assign):
                        for t in b.targets:
                            if isinstance(t, ast.Name) and is_mutable_literal(b.value):
                                cm.add(t.id)
                    elif isinstance(b, ast.FunctionDef):
                        self.funcs.append((n.name + '.' + b.name, b, n.name))
                self.classes[n.name] = cm


def parent_map(fnode):
    pm = {}
    for p in ast.walk(fnode):
        for c in ast.iter_child_nodes(p):
            pm[c] = p
    return pm


def mutation_target(node):
    """if node is a mutating statement/expression return the expression being mutated"""
    if isinstance(node, ast.Call) and isinstance(node.func, ast.Attribute) and node.func.attr in MUT_METHODS:
        return node.func.value
    if isinstance(node, (ast.Assign, ast.AugAssign, ast.Delete)):
        tgts = node.targets if isinstance(node, (ast.Assign, ast.Delete)) else [node.target]
        for t in tgts:
            if isinstance(t, ast.Subscript):
                return t.value
            if isinstance(node, ast.AugAssign) and isinstance(t, (ast.Name, ast.Attribute)):
                return t
    return None


def analyse(repo, package='pyx12', exclude=('test', 'scripts', 'examples')):
    base = os.path.join(repo, package)
    mods = {}
    for fn in sorted(os.listdir(base)):
        if fn.endswith('.py'):
            mods[fn[:-3]] = ModuleInfo(fn[:-3], os.path.join(base, fn))
    findings = []
    # package-wide: attribute names that are mutated somewhere (for escapes of defaults)
    attr_mutated = {}
    for m in mods.values():
        for qual, f, cls in m.funcs:
            for n in ast.walk(f):
                tgt = mutation_target(n)
                if isinstance(tgt, ast.Attribute):
                    attr_mutated.setdefault(tgt.attr, []).append('%s.%s: %s' % (m.name, qual, text(n)))
    # callee parameter mutation summary: (module, funcname/Class.__init__) -> set(param names mutated)
    param_mut = {}
    for m in mods.values():
        for qual, f, cls in m.funcs:
            params = [a.arg for a in f.args.args]
            mutated = set()
            for n in ast.walk(f):
                tgt = mutation_target(n)
                if isinstance(tgt, ast.Name) and tgt.id in params:
                    mutated.add(tgt.id)
                if isinstance(n, ast.Assign) and isinstance(n.value, ast.Name) and n.value.id in params:
                    for t in n.targets:
                        if isinstance(t, ast.Attribute) and t.attr in attr_mutated:
                            mutated.add(n.value.id)
            param_mut[(m.name, qual)] = (params, mutated)
    for m in mods.values():
        for qual, f, cls in m.funcs:
            pm = parent_map(f)
            params = [a.arg for a in f.args.args]
            defaults = f.args.defaults
            mut_defaults = {}
            for a, d in zip(params[len(params) - len(defaults):], defaults):
                if is_mutable_literal(d):
                    mut_defaults[a] = d
            for dec in f.decorator_list:
                dn = dec.id if isinstance(dec, ast.Name) else (dec.attr if isinstance(dec, ast.Attribute) else (dec.func.id if isinstance(dec, ast.Call) and isinstance(dec.func, ast.Name) else (dec.func.attr if isinstance(dec, ast.Call) and isinstance(dec.func, ast.Attribute) else '')))
                if dn in ('memoize', 'memoized', 'lru_cache', 'cache', 'cached_property'):
                    findings.append(Finding('cache-decorator', m.name, qual, dec, 'results cached across calls by @%s' % dn))
            local_stores = {n.id for n in ast.walk(f) if isinstance(n, ast.Name) and isinstance(n.ctx, ast.Store)} | set(params)
            for n in ast.walk(f):
                # ---- global-write
                if isinstance(n, ast.Global):
                    findings.append(Finding('global-write', m.name, qual, n, 'global statement'))
                if isinstance(n, (ast.Assign, ast.AugAssign)):
                    tgts = n.targets if isinstance(n, ast.Assign) else [n.target]
                    for t in tgts:
                        if isinstance(t, ast.Attribute) and isinstance(t.value, ast.Name):
                            b = t.value.id
                            if b not in local_stores and (b in m.classes or b in m.imports or b in ('cls',)):
                                findings.append(Finding('global-write', m.name, qual, n, 'store into attribute of %s' % b))
                            if b == 'cls':
                                findings.append(Finding('global-write', m.name, qual, n, 'store into class attribute'))
                        if isinstance(t, ast.Attribute) and isinstance(t.value, ast.Attribute) and t.value.attr == '__class__':
                            findings.append(Finding('global-write', m.name, qual, n, 'store into class attribute'))
                # ---- mutations
                tgt = mutation_target(n)
                if tgt is not None:
                    if isinstance(tgt, ast.Name):
                        if tgt.id in m.mod_mutables and tgt.id not in local_stores:
                            findings.append(Finding('modconst-mut', m.name, qual, n, 'module-level %s' % tgt.id))
                        if tgt.id in mut_defaults:
                            findings.append(Finding('default-mut', m.name, qual, n, 'mutable default %s mutated' % tgt.id))
                    if isinstance(tgt, ast.Attribute) and isinstance(tgt.value, ast.Name):
                        b = tgt.value.id
                        if cls and b in ('self', 'cls') and tgt.attr in m.classes.get(cls, ()):
                            # class-level mutable reached through the instance, unless __init__ rebinds it
                            rebound = False
                            for q2, f2, c2 in m.funcs:
                                if c2 == cls and q2.endswith('.__init__'):
                                    for x in ast.walk(f2):
                                        if isinstance(x, ast.Assign):
                                            for t in x.targets:
                                                if isinstance(t, ast.Attribute) and t.attr == tgt.attr and isinstance(t.value, ast.Name) and t.value.id == 'self':
                                                    rebound = True
                            if not rebound:
                                findings.append(Finding('modconst-mut', m.name, qual, n, 'class-level mutable %s.%s' % (cls, tgt.attr)))
                        if b in m.classes and tgt.attr in m.classes[b]:
                            findings.append(Finding('modconst-mut', m.name, qual, n, 'class-level mutable %s.%s' % (b, tgt.attr)))
                # ---- escapes of mutable defaults
                if mut_defaults and isinstance(n, ast.Assign) and isinstance(n.value, ast.Name) and n.value.id in mut_defaults:
                    for t in n.targets:
                        if isinstance(t, ast.Attribute) and t.attr in attr_mutated:
                            findings.append(Finding('default-mut', m.name, qual, n,
                                                    'mutable default %s escapes into .%s which is mutated at %s' % (
                                                        n.value.id, t.attr, attr_mutated[t.attr][0])))
                if mut_defaults and isinstance(n, ast.Call):
                    for k, a in enumerate(n.args):
                        if isinstance(a, ast.Name) and a.id in mut_defaults:
                            callee = None
                            if isinstance(n.func, ast.Name):
                                callee = n.func.id
                            elif isinstance(n.func, ast.Attribute):
                                callee = n.func.attr
                            hit = None
                            for (mn, q2), (ps, muts) in param_mut.items():
                                short = q2.split('.')[-1]
                                cname = q2.split('.')[0]
                                if short == callee or (short == '__init__' and cname == callee):
                                    idx = k + (1 if ps and ps[0] == 'self' else 0)
                                    if idx < len(ps) and ps[idx] in muts:
                                        hit = '%s.%s(%s)' % (mn, q2, ps[idx])
                            if hit:
                                findings.append(Finding('default-mut', m.name, qual, n, 'mutable default %s handed to %s which mutates it' % (a.id, hit)))
                # ---- nondeterminism
                if isinstance(n, ast.Call):
                    fn_ = n.func
                    if isinstance(fn_, ast.Attribute) and isinstance(fn_.value, ast.Name):
                        key1 = (fn_.value.id, None)
                        key2 = (fn_.value.id, fn_.attr)
                        if (key1 in NONDET_CALLS or key2 in NONDET_CALLS) and fn_.value.id not in local_stores:
                            findings.append(Finding('nondet', m.name, qual, n, '%s.%s' % (fn_.value.id, fn_.attr)))
                    if isinstance(fn_, ast.Name) and fn_.id in ('id', 'hash') and fn_.id not in local_stores:
                        findings.append(Finding('nondet', m.name, qual, n, fn_.id + '()'))
                    if isinstance(fn_, ast.Name) and fn_.id in ('getattr', 'setattr', 'delattr', 'exec', 'eval', 'globals', 'locals', 'vars', '__import__'):
                        findings.append(Finding('reflection', m.name, qual, n, fn_.id))
                if isinstance(n, ast.Attribute) and n.attr == '__dict__':
                    findings.append(Finding('reflection', m.name, qual, n, '__dict__'))
                if isinstance(n, ast.Attribute) and n.attr == 'environ' and isinstance(n.value, ast.Name) and n.value.id == 'os':
                    findings.append(Finding('nondet', m.name, qual, n, 'os.environ'))
                # ---- hash order
                is_set = (isinstance(n, ast.Call) and isinstance(n.func, ast.Name) and n.func.id in ('set', 'frozenset')) or \
                    isinstance(n, (ast.Set, ast.SetComp))
                if is_set:
                    p = pm.get(n)
                    ok = False
                    why = ''
                    if isinstance(p, ast.Compare):
                        ok = True
                    elif isinstance(p, ast.Call) and isinstance(p.func, ast.Name) and p.func.id in ('sorted', 'len', 'bool', 'any', 'all', 'min', 'max', 'sum', 'frozenset', 'set'):
                        ok = True
                    elif isinstance(p, ast.Call) and isinstance(p.func, ast.Name) and p.func.id in ('list', 'tuple'):
                        # list(set(x)) : fine only when the very next use sorts it
                        gp = pm.get(p)
                        if isinstance(gp, ast.Call) and isinstance(gp.func, ast.Name) and gp.func.id == 'sorted':
                            ok = True
                        elif isinstance(gp, ast.Assign) and len(gp.targets) == 1 and isinstance(gp.targets[0], ast.Name):
                            ok = sorted_next(f, gp, gp.targets[0].id)
                            why = 'list(set(..)) assigned to %s and not sorted before use' % gp.targets[0].id
                        else:
                            why = 'list(set(..)) used in hash order'
                    elif isinstance(p, ast.Assign) and len(p.targets) == 1 and isinstance(p.targets[0], ast.Name):
                        ok = only_membership_uses(f, p.targets[0].id)
                        why = 'set bound to %s which is iterated or escapes' % p.targets[0].id
                    elif isinstance(p, (ast.For, ast.comprehension)):
                        why = 'iteration over a set'
                    elif isinstance(p, ast.BinOp):
                        ok = False
                        why = 'set algebra result used'
                        gp = pm.get(p)
                        if isinstance(gp, (ast.Compare,)) or (isinstance(gp, ast.Call) and isinstance(gp.func, ast.Name) and gp.func.id in ('sorted', 'len', 'bool')):
                            ok = True
                    else:
                        why = 'set value escapes (%s)' % type(p).__name__
                    if not ok:
                        findings.append(Finding('hash-order', m.name, qual, pm.get(pm.get(n), n) if isinstance(p, ast.Call) else (p if p is not None else n), why))
                # ---- output discipline of the acknowledgement writers (C06): text reaches the output only through the one
                # write primitive (error_997_visitor._write, under contract) or through X12Writer (C11)
                if m.name in ('error_997', 'error_999'):
                    if isinstance(n, ast.Call) and isinstance(n.func, ast.Attribute) and n.func.attr in ('write', 'writelines'):
                        findings.append(Finding('direct-write', m.name, qual, pm_stmt(pm, n), 'writes to a stream directly'))
                    if isinstance(n, ast.Name) and isinstance(n.ctx, ast.Load) and n.id in ('fd', 'fd_997'):
                        par = pm.get(n)
                        ctor = isinstance(par, ast.Call) and text(par.func).endswith('X12Writer') and n in par.args
                        store = isinstance(par, ast.Assign) and len(par.targets) == 1 and text(par.targets[0]) == 'self.fd'
                        if not (ctor or store):
                            findings.append(Finding('direct-write', m.name, qual, pm_stmt(pm, n), 'the output stream escapes (%s)' % text(par)[:60]))
                    if isinstance(n, ast.Attribute) and isinstance(n.ctx, ast.Load) and n.attr == 'fd' and \
                            not (isinstance(pm.get(n), ast.Attribute) and pm.get(n).attr in ('write',)):
                        findings.append(Finding('direct-write', m.name, qual, pm_stmt(pm, n), 'reads self.fd other than to write'))
                # ---- call protocol of the error tree (C05): err_X.close() fixes the acknowledgement code of a set / group / interchange
                # from the errors stored AT THAT MOMENT (contracts err_st.close / err_gs.close), so at every call site the errors the
                # reader holds for the trailer must have been attached first: an earlier statement of the same block as errh.close_*_loop(..)
                # is errh.handle_errors(src.pop_errors())
                if m.name == 'x12n_document' and isinstance(n, ast.Call) and isinstance(n.func, ast.Attribute) and \
                        n.func.attr in ('close_isa_loop', 'close_gs_loop', 'close_st_loop'):
                    stmt = pm_stmt(pm, n)
                    par = pm.get(stmt)
                    def _earlier(st_):
                        par_ = pm.get(st_)
                        for fld in ('body', 'orelse', 'finalbody'):
                            blk = getattr(par_, fld, None)
                            if isinstance(blk, list) and st_ in blk:
                                return blk[:blk.index(st_)]
                        return []

                    def _direct(call):
                        w = '%s.handle_errors(src.pop_errors())' % text(call.func.value)
                        return any(text(p).replace(' ', '') == w.replace(' ', '') for p in _earlier(pm_stmt(pm, call)))
                    ok = _direct(n)
                    if not ok:
                        # a repeated close (after the trailer itself has been validated) is covered by the first one: an earlier statement
                        # of an enclosing block within the same loop body holds a close of the same loop that is itself preceded properly
                        up = stmt
                        while not ok and up in pm and not isinstance(pm[up], (ast.For, ast.While, ast.FunctionDef)):
                            up = pm[up]
                            if isinstance(up, ast.stmt):
                                for p in _earlier(up):
                                    for c in ast.walk(p):
                                        if isinstance(c, ast.Call) and isinstance(c.func, ast.Attribute) and c.func.attr == n.func.attr and _direct(c):
                                            ok = True
                    recv = text(n.func.value)
                    want = '%s.handle_errors(src.pop_errors())' % recv
                    if not ok:
                        findings.append(Finding('errors-before-close', m.name, qual, stmt,
                                                '%s is not preceded in its block by %s' % (n.func.attr, want)))
                # ---- delimiter reads (C12)
                if isinstance(n, ast.Attribute) and isinstance(n.ctx, ast.Load) and n.attr in DELIM_ATTRS:
                    findings.append(Finding('delim-read', m.name, qual, pm_stmt(pm, n), 'reads .%s' % n.attr))
                if isinstance(n, ast.Call) and isinstance(n.func, ast.Name) and n.func.id == 'getattr' and len(n.args) >= 2 and \
                        isinstance(n.args[1], ast.Constant) and n.args[1].value in DELIM_ATTRS:
                    findings.append(Finding('delim-read', m.name, qual, pm_stmt(pm, n), 'getattr(.., %r)' % n.args[1].value))
                if isinstance(n, ast.Compare) and any(isinstance(o, (ast.In, ast.NotIn, ast.Eq, ast.NotEq)) for o in n.ops):
                    # a value compared with / searched for a LITERAL delimiter character (~ * : ^ | >): the data is looked at through
                    # one particular encoding
                    for side in [n.left] + list(n.comparators):
                        if isinstance(side, ast.Constant) and isinstance(side.value, str) and side.value in ('~', '*', ':', '^', '|', '>'):
                            findings.append(Finding('delim-read', m.name, qual, pm_stmt(pm, n), 'compares with the literal %r' % side.value))
                if isinstance(n, ast.Call) and isinstance(n.func, ast.Attribute) and n.func.attr == 'get_term':
                    findings.append(Finding('delim-read', m.name, qual, pm_stmt(pm, n), 'calls get_term()'))
                if isinstance(n, ast.Call) and isinstance(n.func, ast.Attribute) and n.func.attr in ('__repr__', '__str__'):
                    findings.append(Finding('delim-read', m.name, qual, pm_stmt(pm, n), 'explicit %s() (text with the object\'s own delimiters)' % n.func.attr))
    return mods, findings


def pm_stmt(pm, n):
    while n in pm and not isinstance(n, ast.stmt):
        n = pm[n]
    return n


def sorted_next(f, assign, name):
    """after `name = list(set(..))` the next statement mentioning name is `name.sort()`"""
    seen = False
    for n in ast.walk(f):
        pass
    body = [s for s in ast.walk(f) if isinstance(s, ast.stmt)]
    body.sort(key=lambda s: (s.lineno, s.col_offset))
    for s in body:
        if s is assign:
            seen = True
            continue
        if not seen or s.lineno <= assign.lineno:
            continue
        uses = [x for x in ast.walk(s) if isinstance(x, ast.Name) and x.id == name]
        if not uses:
            continue
        if isinstance(s, ast.Expr) and isinstance(s.value, ast.Call) and isinstance(s.value.func, ast.Attribute) and \
                s.value.func.attr == 'sort' and isinstance(s.value.func.value, ast.Name) and s.value.func.value.id == name:
            return True
        return False
    return False


def only_membership_uses(f, name):
    pm = parent_map(f)
    for n in ast.walk(f):
        if isinstance(n, ast.Name) and n.id == name and isinstance(n.ctx, ast.Load):
            p = pm.get(n)
            if isinstance(p, ast.Compare) and n in p.comparators:
                continue
            if isinstance(p, ast.Attribute) and p.attr in ('add', 'update', 'discard', 'remove', 'issubset', 'issuperset', 'isdisjoint', 'intersection', 'union', 'difference'):
                continue
            if isinstance(p, ast.Call) and isinstance(p.func, ast.Name) and p.func.id in ('len', 'sorted', 'bool'):
                continue
            return False
    return True
