"""Abstract view of pyx12.segment.Segment for code that uses segments through their public
methods: V(seg) = (seg_id: Optional[str], n_elements: int >= 0, elems: (i, j) -> Optional[str]).

get_value / set with a reference designator are interpreted through the C17 contract of
Segment._parse_refdes/get/get_value/set (proved in contracts/segment.py against the real
class): the designator text is parsed with the repository's own X12Path pattern, a
designator naming another segment id raises EngineError, a whole element beyond the last
one reads None, set() stores the value and leaves every other position unchanged.
Everything else about a segment (is_empty, is_seg_id_valid, text of format/repr) is an
uninterpreted function of the segment value."""
import re as pyre
import z3

from .vals import *
from .tys import *
from .strops import *
from .interp import Raise, EngineLimit

SEG = 'Segment'
_decls = {}


def D():
    if not _decls:
        S = opaque_sort(SEG)
        OS = opt_sort(Str)
        _decls['S'] = S
        _decls['OS'] = OS
        _decls['sid'] = z3.Function('seg.id', S, OS)
        _decls['len'] = z3.Function('seg.len', S, z3.IntSort())
        _decls['elem'] = z3.Function('seg.elem', S, z3.IntSort(), OS)
        _decls['empty'] = z3.Function('seg.is_empty', S, z3.BoolSort())
        _decls['idok'] = z3.Function('seg.is_seg_id_valid', S, z3.BoolSort())
        _decls['repr'] = z3.Function('seg.repr', S, z3.StringSort())
        _decls['fmt'] = z3.Function('seg.format', S, z3.StringSort(), z3.StringSort(), z3.StringSort(), z3.StringSort())
        # id of the segment Segment.__init__ builds from (text, seg_term, ele_term): a function of these three alone (segment.py)
        _decls['parse_id'] = z3.Function('seg.parse_id', z3.StringSort(), z3.StringSort(), z3.StringSort(), OS)
    return _decls


def _once(st, f):
    """add a model axiom instance to the path condition unless it is already there"""
    fid = f.get_id()
    for g in st.pc:
        if g.get_id() == fid:
            return
    st.pc.append(f)


def key(i, j):
    """array index of element i (1-based), component j (1-based; 0 = the whole element)"""
    return i * 1000 + j


def opt_val(e):
    return from_z(e, Opt(Str))


def parse_refdes(I, refdes):
    """-> list of (cond, (sid|None, i, j)) alternatives, or 'invalid'"""
    c = refdes.conc() if isinstance(refdes, SStr) else None
    if c is not None:
        rec = I.class_attr('pyx12.path.X12Path', 'rec_path')
        m = pyre.compile(rec.pattern, rec.flags).search(c)
        if m is None or '/' in c:
            return None
        sid = m.group('seg_id')
        if m.group('id_val') is not None:
            return None
        i = int(m.group('ele_idx')) if m.group('ele_idx') is not None else None
        j = int(m.group('subele_idx')) if m.group('subele_idx') is not None else 0
        return (sid, None if i is None else z3.IntVal(i), j)
    if isinstance(refdes, SStr) and refdes.is_vec() and len(refdes.chars) == 2:
        # two symbolic digits ('%02i' % n): element n
        a, b = refdes.chars
        return ('digits', z3.And(a >= 48, a <= 57, b >= 48, b <= 57), (a - 48) * 10 + (b - 48))
    return None


def unwrap(st, recv):
    if isinstance(recv, Ref):
        return st.heap[recv.addr].fields['v'], recv
    return recv, None


def ctor_facts(I, st, res, env):
    """facts about `Segment(seg_str, seg_term, ele_term, ...)` built through the abstract MUTABLE constructor (997 visitor):
    F0 the id is a function of (seg_str, seg_term, ele_term) alone;
    F1 a constant text without the element separator that does not end in the segment terminator is its own id
       (segment.py: `elems = seg_str.split(ele_term); seg_id = elems[0]`);
    F2 re-reading `s.format(a, b, c)` with the same a, b gives a segment with the id of s when that id is a non-empty text
       free of a and b - the id clause of the C01 round trip (Segment.format / Segment.__init__ contracts, bounded_segment_text).
    All three are ASSUMED here (listed in the evidence), not proved at this call site."""
    d = D()
    v, _ = unwrap(st, res)
    names = list(env)
    seg_str, seg_term, ele_term = env.get('seg_str'), env.get('seg_term'), env.get('ele_term')
    if not (isinstance(seg_str, SStr) and isinstance(seg_term, SStr) and isinstance(ele_term, SStr)):
        return
    I.trusted.add('abstract mutable Segment constructor: id = parse_id(text, seg_term, ele_term); a literal without separators is its own id; '
                  'parse_id(s.format(a, b, c), a, b) == s.get_seg_id() for ids free of a and b (id clause of the C01 round trip)')
    some = d['OS'].constructor(1)
    st.assume(d['sid'](v.e) == d['parse_id'](seg_str.z(), seg_term.z(), ele_term.z()))
    c, a, b = seg_str.conc(), seg_term.conc(), ele_term.conc()
    if c is not None and a is not None and b is not None and c != '' and len(b) == 1 and b not in c and not c.endswith(a):
        st.assume(d['parse_id'](seg_str.z(), seg_term.z(), ele_term.z()) == some(z3.StringVal(c)))
    tag = getattr(seg_str, 'tag', None)
    if tag and tag.get('suffix') is None and len(tag['terms']) == 3:
        src = tag['seg'].e
        ta, tb = tag['terms'][0].z(), tag['terms'][1].z()
        sv = d['OS'].accessor(1, 0)(d['sid'](src))
        ok = z3.And(z3.Not(d['OS'].recognizer(0)(d['sid'](src))), z3.Length(sv) > 0, z3.Not(z3.Contains(sv, ta)), z3.Not(z3.Contains(sv, tb)),
                    ta == seg_term.z(), tb == ele_term.z())
        st.assume(z3.Implies(ok, d['parse_id'](seg_str.z(), seg_term.z(), ele_term.z()) == d['sid'](src)))


def seg_call(I, node, recv, meth, args, kwargs, st):
    d = D()
    v, ref = unwrap(st, recv)
    s = v.e
    I.trusted.add('abstract Segment view (seg_id, length, elements); get_value/set through reference designators per the C17 contract')
    if meth == 'get_seg_id':
        yield st, opt_val(d['sid'](s))
        return
    if meth == '__len__':
        _once(st, d['len'](s) >= 0)
        yield st, SInt(d['len'](s))
        return
    if meth == 'is_empty':
        yield st, SBool(d['empty'](s))
        return
    if meth == 'is_seg_id_valid':
        yield st, SBool(d['idok'](s))
        return
    if meth in ('__repr__', '__str__'):
        yield st, SStr(expr=d['repr'](s))
        return
    if meth == 'format':
        names = ['seg_term', 'ele_term', 'subele_term']
        vals = list(args) + [kwargs.get(n) for n in names[len(args):]]
        if any(not isinstance(x, SStr) for x in vals):
            raise EngineLimit('Segment.format with defaulted delimiters')
        out = SStr(expr=d['fmt'](s, *[x.z() for x in vals]))
        out.tag = {'seg': v, 'terms': vals, 'suffix': None}
        yield st, out
        return
    if meth == 'append':
        # Segment.append(val): one more element at the end, the id unchanged.  None is refused by Composite.__init__ with EngineError.
        if len(args) != 1 or kwargs:
            yield st, I.exc('TypeError', node)
            return
        if isinstance(args[0], SNone):
            yield st, I.exc('pyx12.errors.EngineError', node)
            return
        if not isinstance(args[0], SStr):
            raise EngineLimit('Segment.append of %r' % (args[0],))
        if ref is None:
            raise EngineLimit('Segment.append on an immutable abstract segment')
        I.trusted.add('abstract Segment.append(str): adds exactly one element, keeps the segment id, raises nothing '
                      '(Composite.__init__ on a str with a one-character separator; native stand-in bounded_segment_laws)')
        n = d['len'](s)
        _once(st, n >= 0)
        # (the elements of the new value are left unconstrained: no contract reads them after an append, and a quantified frame
        # axiom in the path condition keeps the solvers from producing counter-models - strictly less is assumed this way)
        new = I.fresh('seg', d['S'])
        st.assume(d['sid'](new) == d['sid'](s))
        st.assume(d['len'](new) == n + 1)
        o = st.mut(ref.addr)
        o.fields['v'] = SOpaque(new, SEG)
        yield st, NONE
        return
    if meth in ('get_value', 'set'):
        if not args or not isinstance(args[0], SStr):
            raise EngineLimit('Segment.%s designator' % meth)
        p = parse_refdes(I, args[0])
        if p is None:
            raise EngineLimit('Segment.%s with designator %r' % (meth, args[0]))
        if p[0] == 'digits':
            _, ok, i = p
            st.assume(ok)
            sid, j = None, 0
        else:
            sid, i, j = p
        if sid is not None:
            # designator names a segment id: must be this segment's
            same = z3.And(z3.Not(d['OS'].recognizer(0)(d['sid'](s))), d['OS'].accessor(1, 0)(d['sid'](s)) == z3.StringVal(sid))
            for st1, b in I.split(st, same):
                if not b:
                    yield st1, I.exc('pyx12.errors.EngineError', node)
                else:
                    yield from _seg_access(I, node, v, ref, meth, i, j, args, st1)
            return
        yield from _seg_access(I, node, v, ref, meth, i, j, args, st)
        return
    raise EngineLimit('abstract Segment.%s' % meth)


def _seg_access(I, node, v, ref, meth, i, j, args, st):
    d = D()
    s = v.e
    if i is None:
        if meth == 'get_value':
            yield st, I.exc('IndexError', node)
        else:
            yield st, I.exc('TypeError', node)
        return
    k = key(i, j)
    n = d['len'](s)
    _once(st, n >= 0)
    if meth == 'get_value':
        cell = d['elem'](s, k)
        if j == 0:
            # a whole element reads None exactly when it lies beyond the last element
            _once(st, d['OS'].recognizer(0)(cell) == (i > n))
        yield st, opt_val(cell)
        return
    # set(refdes, val)
    if ref is None:
        raise EngineLimit('Segment.set on an immutable abstract segment')
    val = args[1]
    if not isinstance(val, SStr):
        raise EngineLimit('Segment.set value %r' % (val,))
    for st1, ok in I.split(st, i >= 1):
        if not ok:
            raise EngineLimit('Segment.set with element index 0')
        new = I.fresh('seg', d['S'])
        some = d['OS'].constructor(1)(val.z())
        kk = z3.Int('seg!k')
        st1.assume(d['elem'](new, k) == some)
        if not ((getattr(I.cur_contract, 'options', None) or {}).get('seg_set_no_frame')):
            # frame of set(): every other position unchanged.  A contract that never reads an element after a set() may switch the
            # quantified clause off (strictly less is assumed) so that the solvers can produce counter-models
            st1.assume(z3.ForAll([kk], z3.Implies(kk != k, d['elem'](new, kk) == d['elem'](s, kk)), patterns=[d['elem'](new, kk)]))
        st1.assume(d['sid'](new) == d['sid'](s))
        st1.assume(d['len'](new) == z3.If(n >= i, n, i))
        o = st1.mut(ref.addr)
        o.fields['v'] = SOpaque(new, SEG)
        yield st1, NONE
