"""Back ends: z3 (python API, in worker processes over SMT-LIB text) and the cvc5 CLI.

A query is `pc AND NOT goal`.  unsat from any solver and sat from none => discharged;
sat => refuted (model returned);  unknown everywhere => undecided.
"""
import os
import re
import subprocess
import tempfile
import json
import time
import multiprocessing as mp

import z3


def build_query(pc, goal, probes=None, drop_quantified=False):
    """-> smt2 text; probes: list of (name, z3 expr) equated to fresh named constants"""
    s = z3.Solver()
    for f in pc:
        if drop_quantified and z3.is_quantifier(f):
            continue
        s.add(f)
    if goal is not None:
        s.add(z3.Not(goal))
    names = []
    if probes:
        for k, (nm, e) in enumerate(probes):
            c = z3.Const('probe!%d' % k, e.sort())
            s.add(c == e)
            names.append((nm, 'probe!%d' % k))
    return s.to_smt2(), names


def _seq_to_py(v):
    """z3 model value -> python"""
    if z3.is_int_value(v):
        return v.as_long()
    if z3.is_true(v):
        return True
    if z3.is_false(v):
        return False
    if z3.is_string_value(v):
        from .strops import decode_z3_string
        return decode_z3_string(v.as_string())
    if z3.is_seq(v):
        d = v.decl().kind()
        if d == z3.Z3_OP_SEQ_EMPTY:
            return []
        if d == z3.Z3_OP_SEQ_UNIT:
            return [_seq_to_py(v.arg(0))]
        if d == z3.Z3_OP_SEQ_CONCAT:
            out = []
            for k in range(v.num_args()):
                out += _seq_to_py(v.arg(k))
            return out
        return str(v)
    if z3.is_app(v) and v.num_args() > 0 and v.sort().kind() == z3.Z3_DATATYPE_SORT:
        return [_seq_to_py(v.arg(k)) for k in range(v.num_args())]
    return str(v)


def _run_z3(smt2, names, timeout_ms, fallback=True):
    """z3 on one query: the default strategy, then (fallback) the plain incremental SMT core on what it leaves unknown"""
    res, model, t, reason = _run_z3_core(smt2, names, timeout_ms, simple=False)
    if res != 'unknown' or not fallback:
        return res, model, t, reason
    r2 = _run_z3_core(smt2, names, max(1000, int(timeout_ms * 0.5)), simple=True)
    return r2[0], r2[1], t + r2[2], r2[3]


def _guarded(smt2, names, timeout_ms):
    import os
    import select
    import signal
    t0 = time.time()
    rfd, wfd = os.pipe()
    pid = os.fork()
    if pid == 0:
        try:
            os.close(rfd)
            out = _run_z3_core(smt2, names, timeout_ms, simple=False)
            os.write(wfd, json.dumps([out[0], out[1], out[3]], default=str).encode())
        except BaseException:
            pass
        finally:
            os._exit(0)
    os.close(wfd)
    data = b''
    deadline = t0 + timeout_ms / 1000.0 * 1.5 + 2
    try:
        while True:
            left = deadline - time.time()
            if left <= 0:
                break
            r, _, _ = select.select([rfd], [], [], left)
            if not r:
                break
            chunk = os.read(rfd, 1 << 16)
            if not chunk:
                break
            data += chunk
    finally:
        os.close(rfd)
        try:
            os.kill(pid, signal.SIGKILL)
        except OSError:
            pass
        try:
            os.waitpid(pid, 0)
        except OSError:
            pass
    try:
        res, model, reason = json.loads(data.decode())
        return res, model, time.time() - t0, reason
    except Exception:
        return 'unknown', None, time.time() - t0, 'tactic solver killed at the deadline'


def _run_z3_core(smt2, names, timeout_ms, simple=True):
    t0 = time.time()
    try:
        ctx = z3.Context()
        # the incremental SMT core; the tactic-based default solver preprocesses with ctx-simplify, which on the deeply nested
        # if-then-else terms of merged paths can run for many minutes and does not honour the timeout
        # simple: the plain incremental SMT core; otherwise z3's default strategy (logic-specific tactic pipelines: much faster on the
        # integer-only queries of vector strings, but its ctx-simplify step can overrun the timeout - the per-function time budget of
        # verify_function is the safety valve for that)
        s = z3.SimpleSolver(ctx=ctx) if simple else z3.Solver(ctx=ctx)
        s.set('timeout', int(timeout_ms))
        s.from_string(smt2)
        r = s.check()
        res = str(r)
        model = None
        reason = ''
        if r == z3.sat:
            m = s.model()
            model = {}
            decls = {d.name(): d for d in m.decls()}
            for nm, cname in names:
                d = decls.get(cname)
                if d is None:
                    continue
                try:
                    model[nm] = _seq_to_py(m[d])
                except Exception as ex:   # pragma: no cover
                    model[nm] = 'unreadable: %s' % ex
            model['__raw__'] = str(m)[:4000]
        elif r == z3.unknown:
            reason = s.reason_unknown()
        return res, model, time.time() - t0, reason
    except Exception as ex:
        return 'error', None, time.time() - t0, repr(ex)


def _to_cvc5_text(smt2):
    t = smt2
    if '(set-logic' not in t:
        t = '(set-logic ALL)\n' + t
    return t


def _run_cvc5(smt2, timeout_ms):
    t0 = time.time()
    fd, path = tempfile.mkstemp(suffix='.smt2', dir=os.environ.get('PYVC_TMP', None))
    try:
        with os.fdopen(fd, 'w') as f:
            f.write(_to_cvc5_text(smt2))
        try:
            p = subprocess.run(['/usr/bin/cvc5', '--strings-exp', '--tlimit=%d' % int(timeout_ms), path],
                               capture_output=True, text=True, timeout=timeout_ms / 1000.0 + 5)
            out = p.stdout.strip().split('\n')[0] if p.stdout.strip() else ''
            if out in ('sat', 'unsat', 'unknown'):
                return out, time.time() - t0, p.stderr[:200]
            return 'unknown', time.time() - t0, (p.stdout + p.stderr)[:200]
        except subprocess.TimeoutExpired:
            return 'unknown', time.time() - t0, 'timeout'
    finally:
        try:
            os.unlink(path)
        except OSError:
            pass


def solve_one(job):
    """job = (idx, smt2, names, z3_ms, cvc5_ms[, smt2_without_quantified_axioms])"""
    idx, smt2, names, z3_ms, cvc5_ms = job[:5]
    qfree = job[5] if len(job) > 5 and job[5] != 'retry' else None
    if qfree is not None:
        # lemma axioms (quantified) dropped: unsat here is unsat of the full query
        r0, m0, t0, reason0 = _run_z3(qfree, names, z3_ms, fallback=False)
        if r0 == 'unsat':
            return {'idx': idx, 'z3': 'unsat', 'z3_s': round(t0, 3), 'model': None, 'reason': '', 'cvc5': None, 'cvc5_s': 0.0}
        res, model, t, reason = _run_z3(smt2, names, z3_ms, fallback=(r0 != 'sat'))
        out = {'idx': idx, 'z3': res, 'z3_s': round(t + t0, 3), 'model': model, 'reason': reason, 'cvc5': None, 'cvc5_s': 0.0}
        if res == 'unknown' and r0 == 'sat':
            # candidate counterexample found without the lemma axioms; only a native replay can confirm it (the driver re-solves
            # the full query with a large budget before it gives the obligation up)
            out['z3'] = 'sat'
            out['model'] = m0
            out['weak'] = True
            return out
    else:
        res, model, t, reason = _run_z3(smt2, names, z3_ms)
        out = {'idx': idx, 'z3': res, 'z3_s': round(t, 3), 'model': model, 'reason': reason, 'cvc5': None, 'cvc5_s': 0.0}
    if res in ('unknown', 'error') and cvc5_ms:
        r2, t2, msg = _run_cvc5(smt2, cvc5_ms)
        out['cvc5'] = r2
        out['cvc5_s'] = round(t2, 3)
        if r2 == 'sat':
            # cvc5 says sat: ask z3 for a model a bit longer (cvc5 model syntax is not parsed here)
            res3, model3, t3, _ = _run_z3(smt2, names, z3_ms * 3)
            if res3 == 'sat':
                out['model'] = model3
                out['z3'] = 'sat'
    if verdict(out) == 'unknown' and not job_retry(job):
        # second chance with four times the budget: a verdict must not flip to 'undecided' because the machine is busy
        out2 = solve_one(tuple(job[:3]) + (z3_ms * 4, cvc5_ms * 4) + tuple(job[5:6]) + ('retry',))
        out2['z3_s'] = round(out2['z3_s'] + out['z3_s'], 3)
        out2['cvc5_s'] = round(out2['cvc5_s'] + out['cvc5_s'], 3)
        out2['retried'] = True
        return out2
    return out


def job_retry(job):
    return len(job) > 5 and job[-1] == 'retry'


def verdict(out):
    if out['z3'] == 'sat' or out['cvc5'] == 'sat':
        return 'sat'
    if out['z3'] == 'unsat' or out['cvc5'] == 'unsat':
        return 'unsat'
    return 'unknown'


def solve_all(jobs, procs=16):
    if not jobs:
        return []
    if procs <= 1 or len(jobs) == 1:
        return [solve_one(j) for j in jobs]
    with mp.get_context('fork').Pool(min(procs, len(jobs))) as pool:
        return pool.map(solve_one, jobs, chunksize=max(1, len(jobs) // (procs * 8)))


def strong_resolve(smt2, names, z3_ms, cvc5_ms):
    """large-budget second opinion on one full query: cvc5, then z3 with four times the budget -> 'unsat' | 'sat' | 'unknown'"""
    r2, _, _ = _run_cvc5(smt2, cvc5_ms * 2)
    if r2 in ('unsat', 'sat'):
        return r2
    res, _, _, _ = _run_z3(smt2, names, z3_ms * 4)
    return res if res in ('unsat', 'sat') else 'unknown'
