"""CPython cross-check of the semantics model (DESIGN 4.3): the engine executes the real
function on seeded CONCRETE inputs (every value a constant, so exactly one path) and the
result - including the exception class - is compared with the native run under
/venv/bin/python.  A disagreement is an engine bug (exit 3), never a property verdict."""
import json
import os
import random
import subprocess
import sys

from .vals import *
from .tys import *
from .contract import REGISTRY, Const
from .interp import Interp, St, Raise, EngineLimit, NORMAL
from . import contracts_rt as C

ALPHA = '0123456789-.:~*^ AZaz\n\t|<>&\'"\\/[]_%{}`#$!,+=?;()\x07\xe9'


def rand_str(rnd, hint=None):
    kind = rnd.random()
    n = rnd.choice([0, 1, 2, 3, 4, 5, 6, 7, 8, 8, 9, 12, 12, 13, 17, 17, 20])
    if kind < 0.55:
        al = '0123456789'
    elif kind < 0.75:
        al = '0123456789-.'
    else:
        al = ALPHA
    s = ''.join(rnd.choice(al) for _ in range(n))
    if hint == 'date' and rnd.random() < 0.5:
        y = rnd.choice([1799, 1800, 1900, 1996, 2000, 2001, 2004, 2100, 2400])
        m = rnd.choice([0, 1, 2, 4, 6, 9, 11, 12, 13])
        d = rnd.choice([0, 1, 28, 29, 30, 31, 32])
        s = '%04d%02d%02d' % (y, m, d)
        r = rnd.random()
        if r < 0.2:
            s = s[2:]
        elif r < 0.4:
            s += '%02d%02d' % (rnd.choice([0, 23, 24]), rnd.choice([0, 59, 60]))
        elif r < 0.6:
            s = s + '-' + s
    return s


def gen_inputs(c, argnames, n, seed):
    rnd = random.Random(seed)
    out = []
    for _ in range(n):
        args = {}
        for a in argnames:
            if a in c.cases:
                args[a] = rnd.choice(c.cases[a])
            else:
                t = c.params.get(a)
                if t is Str or isinstance(t, StrN):
                    args[a] = rand_str(rnd, 'date')
                elif t is Int:
                    args[a] = rnd.choice([-1, 0, 1, 2, 3, 9, 10, 99, 100])
                elif t is Bool:
                    args[a] = rnd.random() < 0.5
                else:
                    return None
        out.append(args)
    return out


def val_to_py(st, v):
    if isinstance(v, SNone):
        return None
    if isinstance(v, (SInt, SBool, SStr)):
        c = v.conc()
        if c is None:
            raise EngineLimit('non-concrete result')
        return c
    if isinstance(v, STuple):
        return [val_to_py(st, x) for x in v.items]
    if isinstance(v, Ref):
        o = st.heap[v.addr]
        if isinstance(o, HList):
            return [val_to_py(st, x) for x in o.items]
    raise EngineLimit('result %r' % (v,))


def engine_run(repo, verif, qual, args, argnames):
    I = Interp(repo, verif)
    I.cur_func = qual
    I.cur_func_qual = None
    I.cur_contract = None

    class _NoContracts(dict):
        pass
    fn = I.find_function(qual)
    m, fnode, cls = fn
    st = St()
    env = {a: C.py_to_val(I, st, args[a]) for a in argnames}
    env['__module__'] = m
    env['__func__'] = qual
    env['__locals__'] = I.local_names(fnode)
    st.frames = [env]
    I.policy = lambda q: 'inline'
    outs = list(I.ex(fnode.body, st))
    results = []
    for st1, sig in outs:
        if sig is NORMAL:
            r = {'result': None}
        elif sig[0] == 'return':
            r = {'result': val_to_py(st1, sig[1])}
        elif sig[0] == 'raise':
            r = {'raises': sig[1].cls.rsplit('.', 1)[-1]}
        else:
            r = {'engine_error': str(sig)}
        if r not in results:
            results.append(r)
    # the model may be non-deterministic about WHICH regex match is returned; every
    # admitted behaviour must then agree with CPython
    if len(results) != 1:
        return {'engine_error': '%d different outcomes on a concrete input: %r' % (len(results), results[:3])}
    return results[0]


NATIVE = r'''
import sys, json, importlib
spec = json.load(open(sys.argv[1]))
sys.path.insert(0, spec['repo'])
import warnings; warnings.simplefilter('ignore')
parts = spec['qual'].split('.')
for k in range(len(parts) - 1, 0, -1):
    try:
        m = importlib.import_module('.'.join(parts[:k]))
    except ImportError:
        continue
    o = m
    for p in parts[k:]:
        o = getattr(o, p)
    break
def norm(x):
    if isinstance(x, tuple): return [norm(y) for y in x]
    if isinstance(x, list): return [norm(y) for y in x]
    return x
out = []
for args in spec['inputs']:
    try:
        out.append({'result': norm(o(*[args[a] for a in spec['argnames']]))})
    except Exception as e:
        out.append({'raises': type(e).__name__})
print(json.dumps(out))
'''


def crosscheck(repo, verif, qual, n=200, seed=0):
    c = REGISTRY[qual]
    I = Interp(repo, verif)
    fn = I.find_function(qual)
    argnames = [a.arg for a in fn[1].args.args]
    inputs = gen_inputs(c, argnames, n, seed)
    if inputs is None:
        return {'function': qual, 'skipped': 'no concrete generator for its parameter types'}
    import tempfile
    fd, path = tempfile.mkstemp(suffix='.json')
    with os.fdopen(fd, 'w') as f:
        json.dump({'repo': repo, 'qual': qual, 'argnames': argnames, 'inputs': inputs}, f)
    try:
        env = dict(os.environ)
        env.pop('PYTHONPATH', None)
        p = subprocess.run(['/venv/bin/python', '-c', NATIVE, path], capture_output=True, text=True, timeout=300, env=env)
        native = json.loads(p.stdout.strip().split('\n')[-1])
    finally:
        os.unlink(path)
    dis = []
    errs = 0
    for args, nat in zip(inputs, native):
        try:
            eng = engine_run(repo, verif, qual, args, argnames)
        except EngineLimit as ex:
            eng = {'engine_limit': str(ex)}
            errs += 1
            continue
        if eng != nat:
            dis.append({'args': args, 'engine': eng, 'native': nat})
    return {'function': qual, 'samples': len(inputs), 'disagreements': dis[:5], 'n_disagreements': len(dis), 'engine_limits': errs}
