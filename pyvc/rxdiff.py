"""Bounded-exhaustive differential: CPython `re` vs the verifier's regex model (R2 and the
NFA translation).  Runs under /venv/bin/python against the patterns of the REAL module.

usage: rxdiff.py <repo> <verif> <maxlen> <module:attr[:mode]> ...
mode 'full' : the code uses  m = rec.search(v); m and m.group(0) == v   (R2 is needed)
mode 'any'  : the code uses  m = rec.search(v); m and m.group(0)        (existence only)
Labelled BOUNDED in the evidence; part of the trusted base, never counted as proved.
"""
import importlib
import itertools
import json
import sys
import time


def main():
    repo, verif, maxlen = sys.argv[1], sys.argv[2], int(sys.argv[3])
    sys.path.insert(0, verif)
    sys.path.insert(0, repo)
    from pyvc.rx import Rx
    out = {'patterns': [], 'strings': 0, 'disagreements': []}
    t0 = time.time()
    for spec in sys.argv[4:]:
        parts = spec.split(':')
        modname, attr = parts[0], parts[1]
        mode = parts[2] if len(parts) > 2 else 'full'
        mod = importlib.import_module(modname)
        obj = mod
        try:
            for a in attr.split('.'):
                obj = getattr(obj, a)
        except AttributeError:
            out.setdefault('absent', []).append(spec)   # pattern no longer exists in the module: nothing to model
            continue
        rec = obj
        if not hasattr(rec, 'pattern'):
            out.setdefault('absent', []).append(spec)
            continue
        R = Rx(rec.pattern, rec.flags & ~32)   # 32 = re.UNICODE (implicit for str patterns)
        alpha = [chr(c) for c in R.alphabet()]
        if len(alpha) > 9:
            # keep literals/boundaries but cap the alphabet: first and last of the sorted points + spread
            step = max(1, len(alpha) // 9)
            alpha = sorted(set(alpha[::step] + [alpha[0], alpha[-1], '\n']))[:10]
        n = 0
        L = maxlen
        while L > 1 and sum(len(alpha) ** k for k in range(L + 1)) > 400000:
            L -= 1
        for k in range(L + 1):
            for tup in itertools.product(alpha, repeat=k):
                v = ''.join(tup)
                n += 1
                m = rec.search(v)
                ex = R.search_exists(v)
                if (m is not None) != ex:
                    out['disagreements'].append({'pattern': rec.pattern, 'value': v, 're': m is not None, 'model': ex, 'what': 'existence'})
                if mode == 'full' and m is not None:
                    whole = R.accepts(v) or (R.anch_end and v.endswith('\n') and R.accepts(v[:-1]) and False)
                    if whole and m.group(0) != v:
                        out['disagreements'].append({'pattern': rec.pattern, 'value': v, 'group0': m.group(0), 'what': 'R2'})
                    if m.group(0) == v and not R.anch_end and not R.accepts(v):
                        out['disagreements'].append({'pattern': rec.pattern, 'value': v, 'what': 'group0==v but model rejects'})
                if mode == 'any' and m is not None and not m.group(0) and not R.accepts_empty():
                    out['disagreements'].append({'pattern': rec.pattern, 'value': v, 'what': 'empty match'})
        singles = 0
        if mode == 'any':
            # exhaustive over every single code point: validates the class translation completely
            for cp in range(0x110000):
                v = chr(cp)
                singles += 1
                if (rec.search(v) is not None) != R.search_exists(v):
                    out['disagreements'].append({'pattern': rec.pattern, 'value': v, 'what': 'single code point'})
        n += singles
        out['patterns'].append({'single_code_points': singles, 'name': spec, 'pattern': rec.pattern, 'flags': rec.flags, 'alphabet': alpha, 'maxlen': L, 'strings': n})
        out['strings'] += n
    out['wall_s'] = round(time.time() - t0, 2)
    out['disagreements'] = out['disagreements'][:20]
    print(json.dumps(out))


if __name__ == '__main__':
    main()
