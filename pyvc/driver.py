"""Property-level driver: runs the units of a property, replays refutations on the real
code, applies the known-findings file, writes evidence and prints the verdict lines."""
import argparse
import hashlib
import importlib
import json
import os
import pkgutil
import re
import subprocess
import sys
import time
import traceback

VERIF = os.path.dirname(os.path.dirname(os.path.abspath(__file__)))
VENV_PY = '/venv/bin/python'


def load_contracts():
    import contracts
    for m in pkgutil.iter_modules(contracts.__path__):
        importlib.import_module('contracts.' + m.name)


def model_to_args(model, argnames):
    """probe names -> nested python values per top-level argument"""
    args = {}
    if not model:
        return args
    flat = {k: v for k, v in model.items() if k != '__raw__'}
    for a in argnames:
        if a in flat:
            args[a] = flat[a]
        else:
            sub = {k[len(a):]: v for k, v in flat.items() if k.startswith(a + '.') or k.startswith(a + '[')}
            if sub:
                args[a] = sub
    # ghost probes (anything not belonging to an argument)
    for k, v in flat.items():
        root = re.split(r'[.\[]', k, 1)[0]
        if root not in argnames:
            args.setdefault('__probes__', {})[k] = v
    return args


def run_native_replay(spec_path):
    env = dict(os.environ)
    env.pop('PYTHONPATH', None)
    try:
        p = subprocess.run([VENV_PY, os.path.join(VERIF, 'pyvc', 'native_replay.py'), spec_path],
                           capture_output=True, text=True, timeout=120, env=env, cwd=VERIF)
    except subprocess.TimeoutExpired:
        return {'confirmed': False, 'detail': 'native replay timed out', 'harness_error': True}
    try:
        return json.loads(p.stdout.strip().split('\n')[-1])
    except Exception:
        return {'confirmed': False, 'detail': 'native replay produced no verdict: ' + (p.stdout + p.stderr)[-800:],
                'harness_error': True}


def obligation_file(pid, name):
    h = hashlib.sha1(name.encode()).hexdigest()[:10]
    safe = re.sub(r'[^A-Za-z0-9_.#-]+', '_', name)[:80]
    return os.path.join('replay', pid, '%s-%s.json' % (safe, h))


def load_known_findings():
    p = os.path.join(VERIF, 'known_findings.json')
    if not os.path.exists(p):
        return {'findings': [], 'fixed': []}
    return json.load(open(p))


def finding_matches(entry, obligation, args):
    # entries of the other unit kinds (bounded / ground / frames) never excuse a refuted deductive obligation
    if not entry.get('obligation') or entry['obligation'] != obligation:
        return False
    pred = entry.get('witness')
    if not pred:
        return True
    try:
        return bool(eval(pred, {'__builtins__': {'len': len, 'any': any, 'all': all, 'str': str, 'int': int,
                                                  'isinstance': isinstance, 'set': set, 'sorted': sorted}}, dict(args)))
    except Exception:
        return False


class Result:
    def __init__(self, pid, tier, seed):
        self.pid = pid
        self.tier = tier
        self.seed = seed
        self.functions = []
        self.obligations = 0
        self.discharged = 0
        self.queries = 0
        self.samples = []
        self.trusted = set()
        self.assumptions = set()
        self.violations = []      # dict(obligation, replay, confirmed, detail)
        self.known = []           # known finding lines
        self.undecided = []
        self.crashes = []
        self.bounded = []
        self.ground = []
        self.lemmas = []
        self.extra = {}
        self.solver = {'z3_s': 0.0, 'cvc5_s': 0.0, 'gen_s': 0.0, 'by_backend': {'z3': 0, 'cvc5': 0}}
        self.excluded_by_known = []
        self.covers = {'total': 0, 'sat': 0}


def process_function(res, rep, contract, repo, findings, opts):
    """fold a FuncReport into the property result; replay refutations"""
    res.functions.append({'qualname': rep.qual, 'file': rep.file, 'lines': rep.lines, 'sha256': rep.sha256,
                          'statements': rep.statements, 'dropped_statements': rep.dropped,
                          'obligations': len(rep.obligations), 'queries': rep.queries, 'paths': rep.paths,
                          'gen_s': rep.gen_s, 'solve_s': rep.solve_s, 'error': rep.error,
                          'uses_contracts': rep.used_contracts, 'inlined': rep.inlined})
    if rep.error:
        res.undecided.append({'function': rep.qual, 'why': rep.error})
        return
    skip = tuple(opts.get('skip_kinds') or ())
    if skip:
        # this property is carried by a subset of the function's obligations (e.g. C07: exception freedom only); the others
        # belong to the property that owns the functional contract and are reported there
        dropped = [n for n in rep.obligations if any(k in n for k in skip)]
        for n in dropped:
            del rep.obligations[n]
        rep.refuted = [r for r in rep.refuted if r['obligation'] not in dropped]
        rep.undecided = [u for u in rep.undecided if u['obligation'] not in dropped]
        res.extra.setdefault('obligations_owned_by_other_properties', []).extend(dropped)
    if not rep.obligations:
        res.crashes.append('%s generated zero obligations' % rep.qual)
        return
    res.solver['z3_s'] += rep.z3_s
    res.solver['cvc5_s'] += rep.cvc5_s
    res.solver['gen_s'] += rep.gen_s
    for k, v in rep.by_backend.items():
        res.solver['by_backend'][k] += v
    for t in rep.trusted:
        res.trusted.add(t)
    nsat = 0
    sat_cases = set(c['case'] for c in rep.covers if c['result'] == 'sat')
    for c in rep.covers:
        res.covers['total'] += 1
        if c['result'] == 'sat':
            res.covers['sat'] += 1
            nsat += 1
        elif c['result'] == 'unsat' and c['case'] not in sat_cases:
            res.covers.setdefault('infeasible_cases', []).append('%s: %s (%s)' % (rep.qual, c['case'], c['what']))
            if 'len(' not in c['case'] and c['what'] != 'requires':
                res.crashes.append('vacuity: case %r of %s is unreachable (%s)' % (c['case'], rep.qual, c['what']))
    if not nsat:
        res.crashes.append('vacuity: no reachable case in %s' % rep.qual)
    pid = res.pid
    refuted_by_obl = {}
    for r in rep.refuted:
        refuted_by_obl.setdefault(r['obligation'], []).append(r)
    for name, ent in rep.obligations.items():
        res.obligations += 1
        res.queries += ent['queries']
        if len(res.samples) < 12:
            res.samples.append({'obligation': name, 'kind': ent['kind'], 'queries': ent['queries'],
                                'solver_s': ent['solver_s'], 'status': ent['status'], 'backend': ent['backend']})
        if ent['status'] == 'discharged':
            res.discharged += 1
        elif ent['status'] == 'undecided':
            res.undecided.append({'obligation': name, 'why': [u for u in rep.undecided if u['obligation'] == name][:2]})
    fn_args = opts['argnames'](rep.qual)
    for name, rs in refuted_by_obl.items():
        handled = False
        confirmed = None
        tried = []
        all_known = True
        any_confirmed = False
        for r in rs[:opts.get('max_replays', 6)]:
            args = model_to_args(r['model'], fn_args)
            spec = {'repo': repo, 'verif': VERIF, 'qual': rep.qual, 'scope': contract.scope,
                    'args': {k: v for k, v in args.items() if k != '__probes__'}, 'probes': args.get('__probes__', {}),
                    'argorder': fn_args, 'ensures': list(contract.ensures) + list(contract.ghost.get('replay_ensures', [])),
                    'generator': bool(contract.yield_ensures), 'requires': contract.requires,
                    'raises': contract.raises, 'builder': contract.build,
                    'obligation': name, 'property': pid, 'case': r['case'], 'kind': r['kind'], 'site': r['site'],
                    'note': r['note'], 'source_sha256': rep.sha256,
                    'solver_model': (r['model'] or {}).get('__raw__', '')}
            if contract.build:
                spec['args'] = args
                if contract.ghost.get('search'):
                    import itertools as _it
                    keys = list(contract.ghost['search'])
                    combos = list(_it.product(*[contract.ghost['search'][k] for k in keys]))[:400]
                    spec['variants'] = [dict(zip(keys, c)) for c in combos]
            path = obligation_file(pid, name)
            if os.environ.get('PYVC_REPLAY_DIR'):
                path = os.path.join(os.environ['PYVC_REPLAY_DIR'], os.path.relpath(path, 'replay'))
            os.makedirs(os.path.join(VERIF, os.path.dirname(path)), exist_ok=True)
            full = os.path.join(VERIF, path)
            json.dump(spec, open(full, 'w'), indent=1, default=str)
            verdict = run_native_replay(full)
            spec['native'] = verdict
            json.dump(spec, open(full, 'w'), indent=1, default=str)
            tried.append((r, spec, verdict, path))
            if verdict.get('confirmed'):
                any_confirmed = True
                if verdict.get('witness_args'):
                    spec['args'] = verdict['witness_args']
                    args = verdict['witness_args']
                    json.dump(spec, open(full, 'w'), indent=1, default=str)
                known = [f for f in findings if f['property'] == pid and finding_matches(f, name, spec['args'] if not contract.build else args)]
                if known:
                    line = 'KNOWN-FINDING: property=%s %s' % (pid, known[0]['what'])
                    if line not in res.known:
                        res.known.append(line)
                    res.excluded_by_known.append(name)
                    continue
                all_known = False
                res.violations.append({'obligation': name, 'replay': path, 'confirmed': True,
                                       'detail': verdict.get('detail'), 'outcome': verdict.get('outcome'),
                                       'witness': spec['args']})
                handled = True
                break
        if handled:
            continue
        if any_confirmed and all_known:
            continue
        # nothing reproduced natively
        r, spec, verdict, path = tried[-1]
        if all(t[0].get('weak') for t in tried):
            # the only counter-models came from the query WITHOUT the lemma axioms: not a refutation.  Second opinion on the full
            # queries with a large budget; when all of them turn out unsat (and there was no other candidate) the obligation is proved
            from . import solve as S
            allw = [x for x in rs if x.get('weak')]
            if len(allw) == len(rs) and all(x.get('smt2') for x in allw):
                verdicts = [S.strong_resolve(x['smt2'][0], x['smt2'][1], opts.get('z3_ms', 10000), opts.get('cvc5_ms', 10000)) for x in allw]
                if all(v == 'unsat' for v in verdicts):
                    res.discharged += 1
                    res.extra.setdefault('weak_candidates_resolved', []).append({'obligation': name, 'queries': len(allw)})
                    continue
            res.undecided.append({'obligation': name, 'why': 'candidate counterexample (lemma axioms dropped) did not replay; full query unknown'})
            continue
        res.violations.append({'obligation': name, 'replay': path, 'confirmed': False,
                               'detail': 'refuted by the solver; no failing input reproduced natively (%s)' % verdict.get('detail', ''),
                               'witness': spec['args']})
    # obligations the solvers left open (typically: the negation is satisfiable but no back end produces a model).  Where the contract
    # has a native builder and a witness search space, look for a failing input on the REAL code: a confirmed one is a violation of
    # the contract (replayed); finding none leaves the obligation undecided - it is never counted as discharged.
    if contract.build and contract.ghost.get('search'):
        import itertools as _it
        keys = list(contract.ghost['search'])
        combos = list(_it.product(*[contract.ghost['search'][k] for k in keys]))[:400]
        still = []
        for u in res.undecided:
            name = u.get('obligation')
            if not name or name not in rep.obligations or rep.obligations[name]['status'] != 'undecided' or not name.startswith(rep.qual + '#'):
                still.append(u)
                continue
            ent = rep.obligations[name]
            spec = {'repo': repo, 'verif': VERIF, 'qual': rep.qual, 'scope': contract.scope, 'args': {}, 'probes': {},
                    'argorder': fn_args, 'ensures': list(contract.ensures) + list(contract.ghost.get('replay_ensures', [])),
                    'generator': bool(contract.yield_ensures), 'requires': contract.requires, 'raises': contract.raises,
                    'builder': contract.build, 'obligation': name, 'property': pid, 'case': '', 'kind': ent['kind'], 'site': '',
                    'note': 'undecided by the solvers; native witness search', 'source_sha256': rep.sha256, 'solver_model': '',
                    'variants': [dict(zip(keys, c)) for c in combos]}
            path = obligation_file(pid, name)
            if os.environ.get('PYVC_REPLAY_DIR'):
                path = os.path.join(os.environ['PYVC_REPLAY_DIR'], os.path.relpath(path, 'replay'))
            os.makedirs(os.path.join(VERIF, os.path.dirname(path)), exist_ok=True)
            full = os.path.join(VERIF, path)
            json.dump(spec, open(full, 'w'), indent=1, default=str)
            verdict = run_native_replay(full)
            spec['native'] = verdict
            if verdict.get('confirmed') and verdict.get('witness_args'):
                spec['args'] = verdict['witness_args']
            json.dump(spec, open(full, 'w'), indent=1, default=str)
            if not verdict.get('confirmed'):
                still.append(u)
                continue
            known = [f for f in findings if f['property'] == pid and finding_matches(f, name, spec['args'])]
            if known:
                line = 'KNOWN-FINDING: property=%s %s' % (pid, known[0]['what'])
                if line not in res.known:
                    res.known.append(line)
                res.excluded_by_known.append(name)
                still.append(u)
                continue
            res.violations.append({'obligation': name, 'replay': path, 'confirmed': True,
                                   'detail': 'left open by the solvers; ' + str(verdict.get('detail')), 'outcome': verdict.get('outcome'),
                                   'witness': spec['args']})
        res.undecided[:] = still


def write_evidence(res, level, wall, checker_cmd, explanation=''):
    ev = {
        'property_id': res.pid,
        'tier': res.tier,
        'seed': res.seed,
        'level': level,
        'wall_s': round(wall, 2),
        'violations': len(res.violations),
        'coverage': {
            'obligations': res.obligations,
            'discharged': res.discharged,
            'checker_cmd': checker_cmd,
            'trusted_base': sorted(res.trusted),
            'queries': res.queries,
            'functions': res.functions,
            'samples': res.samples,
            'solver': {k: (round(v, 2) if isinstance(v, float) else v) for k, v in res.solver.items()},
            'covers': res.covers,
            'undecided': res.undecided,
            'excluded_by_known_finding': sorted(set(res.excluded_by_known)),
            'bounded': res.bounded,
            'ground': res.ground,
            'lemmas': res.lemmas,
            'violations': res.violations,
            'explanation': explanation,
        },
        'assumptions': sorted(res.assumptions | res.trusted),
    }
    ev['coverage'].update(res.extra)
    evdir = os.environ.get('PYVC_EVIDENCE_DIR') or os.path.join(VERIF, 'evidence')
    os.makedirs(evdir, exist_ok=True)
    json.dump(ev, open(os.path.join(evdir, res.pid + '.json'), 'w'), indent=1, default=str)
    return ev


def finish(res, level, t0, checker_cmd, explanation=''):
    wall = time.time() - t0
    # obligations excluded by a listed known finding are reported separately, not as proved
    excl = set(res.excluded_by_known)
    res.obligations -= len([x for x in excl if not x.startswith(('ground:', 'bounded:', 'frames#'))])
    write_evidence(res, level, wall, checker_cmd, explanation)
    for line in res.known:
        print(line)
    if res.crashes:
        for c in res.crashes:
            print('CHECKER-ERROR property=%s %s' % (res.pid, c))
        return 3
    if res.violations:
        for v in res.violations:
            tail = '' if v['confirmed'] else ' no-failing-input-found'
            print('VIOLATION property=%s replay=%s%s' % (res.pid, v['replay'], tail))
            print('  obligation: %s' % v['obligation'])
            print('  %s' % (v.get('detail') or ''))
            if v.get('outcome'):
                print('  real code: %s' % v['outcome'])
        return 1
    if res.undecided:
        for u in res.undecided:
            print('UNDECIDED property=%s %s' % (res.pid, json.dumps(u, default=str)[:300]))
        return 2
    print('OK property=%s obligations=%d discharged=%d queries=%d functions=%d wall=%.1fs' % (
        res.pid, res.obligations, res.discharged, res.queries, len(res.functions), wall))
    return 0
