"""Ground discharge of configuration preconditions (DESIGN 3.9).  Runs under
/venv/bin/python: evaluates spec predicates over every node of every shipped map, loaded
through the REAL loader of <repo>.  Finite and exhaustive; labelled ground evaluation.

usage: ground_native.py <repo> <verif> <task>      -> JSON on stdout
"""
import glob
import json
import logging
import os
import re
import sys
import time
import xml.etree.ElementTree as ET


def map_files(repo):
    mdir = os.path.join(repo, 'pyx12', 'map')
    t = ET.parse(os.path.join(mdir, 'maps.xml'))
    out = []
    for v in t.iter('version'):
        for m in v.iterfind('map'):
            out.append({'icvn': v.get('icvn'), 'vriic': m.get('vriic'), 'fic': m.get('fic'),
                        'tspc': m.get('tspc'), 'file': m.text, 'abbr': m.get('abbr')})
    return mdir, out


def walk(node):
    """every node of a loaded map tree: loops/segments through pos_map, elements through children"""
    yield node
    pm = getattr(node, 'pos_map', None)
    if pm is not None:
        for pos in sorted(pm):
            for ch in pm[pos]:
                yield from walk(ch)
    else:
        for ch in getattr(node, 'children', None) or []:
            yield from walk(ch)


def load_all(repo):
    import pyx12.map_if
    import pyx12.params
    param = pyx12.params.params()
    mdir, idx = map_files(repo)
    maps = {}
    errors = []
    for ent in idx:
        f = ent['file']
        if f in maps:
            continue
        try:
            maps[f] = pyx12.map_if.load_map_file(f, param)
        except Exception as e:
            errors.append({'file': f, 'error': '%s: %s' % (type(e).__name__, e)})
    return mdir, idx, maps, errors


def task_c14(repo, verif):
    from specs.syntax import parse_note
    out = {'notes': 0, 'distinct': 0, 'files': 0, 'segments': 0, 'violations': [], 'max_positions': 0, 'kinds': {}}
    mdir, idx = map_files(repo)
    seen = set()
    files = sorted(set(glob.glob(os.path.join(mdir, '*.xml'))))
    for path in files:
        try:
            root = ET.parse(path).getroot()
        except ET.ParseError as e:
            continue
        if root.tag not in ('transaction', 'map'):
            pass
        n_here = 0
        for syn in root.iter('syntax'):
            seg = syn
            if True:
                text = syn.text or ''
                out['notes'] += 1
                n_here += 1
                seen.add(text)
                if not re.fullmatch(r'[PRCLE]([0-9][0-9]){2,6}', text):
                    out['violations'].append({'file': os.path.basename(path), 'segment': '?', 'note': text,
                                              'what': 'not of the form [PRCLE] + 2..6 two-digit positions'})
                    continue
                pos = parse_note(text)[1:]
                out['max_positions'] = max(out['max_positions'], len(pos))
                out['kinds'][text[0]] = out['kinds'].get(text[0], 0) + 1
                if any(p < 1 or p > 99 for p in pos):
                    out['violations'].append({'file': os.path.basename(path), 'segment': '?', 'note': text,
                                              'what': 'position outside 1..99'})
        if n_here:
            out['files'] += 1
    out['distinct'] = len(seen)
    # the loaded trees: node.syntax must be parse_note of the text (run-time check of _split_syntax's contract)
    mdir, idx, maps, errors = load_all(repo)
    out['load_errors'] = errors
    for f, m in maps.items():
        texts = {}
        root = ET.parse(os.path.join(mdir, f)).getroot()
        for node in walk(m):
            if getattr(node, 'is_segment', lambda: False)() and hasattr(node, 'syntax'):
                out['segments'] += 1
                for syn in node.syntax:
                    if not (isinstance(syn, list) and len(syn) >= 3 and syn[0] in 'PRCLE' and all(isinstance(x, int) for x in syn[1:])):
                        out['violations'].append({'file': f, 'segment': node.id, 'note': repr(syn), 'what': 'loaded note malformed'})
    out['samples'] = sorted(seen)[:8]
    return out


TASKS = {'c14': task_c14}


def main():
    repo, verif, task = sys.argv[1], sys.argv[2], sys.argv[3]
    sys.path.insert(0, verif)
    sys.path.insert(0, repo)
    logging.disable(logging.CRITICAL)
    import warnings
    warnings.simplefilter('ignore')
    t0 = time.time()
    out = TASKS[task](repo, verif)
    out['wall_s'] = round(time.time() - t0, 2)
    print(json.dumps(out, default=str))



def task_c16(repo, verif):
    """C16: every index entry loads; every node well formed; data elements / external code sets
    defined; same-position siblings distinguishable; index keys unique; nodes addressable by the
    path they report; paths unique; explicit map directory == packaged resources."""
    import pyx12.map_if
    import pyx12.params
    import pyx12.map_index
    import pyx12.codes
    import pyx12.dataele
    from pyx12.errors import EngineError
    out = {'files': 0, 'nodes': 0, 'index_entries': 0, 'violations': [], 'by_kind': {}, 'checks': {}}

    def viol(what, **kw):
        d = {'what': what}
        d.update(kw)
        out['violations'].append(d)
        out['by_kind'][what] = out['by_kind'].get(what, 0) + 1

    def ck(name):
        out['checks'][name] = out['checks'].get(name, 0) + 1
    mdir, idx = map_files(repo)
    out['index_entries'] = len(idx)
    # index keys unambiguous
    seen = {}
    for ent in idx:
        k = (ent['icvn'], ent['vriic'], ent['fic'], ent['tspc'])
        ck('index key unique')
        if k in seen and seen[k] != ent['file']:
            viol('index key maps to two files', key=list(k), files=[seen[k], ent['file']])
        seen[k] = ent['file']
    mi = pyx12.map_index.map_index()
    for ent in idx:
        ck('index lookup')
        got = mi.get_filename(ent['icvn'], ent['vriic'], ent['fic'], ent['tspc'])
        if got != ent['file'] and seen.get((ent['icvn'], ent['vriic'], ent['fic'], ent['tspc'])) == ent['file']:
            viol('index lookup returns another file', key=[ent['icvn'], ent['vriic'], ent['fic'], ent['tspc']], file=ent['file'], got=got)
    param = pyx12.params.params()
    dataele = pyx12.dataele.DataElements()
    codes = pyx12.codes.ExternalCodes(None, param.get('exclude_external_codes'))
    files = []
    for ent in idx:
        if ent['file'] not in files:
            files.append(ent['file'])
    for f in files:
        ck('map file loads')
        try:
            m = pyx12.map_if.load_map_file(f, param)
        except Exception as e:
            viol('map file named by the index does not load', file=f, error='%s: %s' % (type(e).__name__, str(e)[:120]))
            continue
        out['files'] += 1
        # explicit map directory gives the same tree
        ck('explicit map directory == packaged')
        try:
            m2 = pyx12.map_if.load_map_file(f, param, mdir)
            sig = lambda mm: [(type(n).__name__, getattr(n, 'id', None), n.get_path() if hasattr(n, 'get_path') else None,
                               getattr(n, 'usage', None), getattr(n, 'pos', None), getattr(n, 'data_ele', None)) for n in walk(mm)]
            if sig(m) != sig(m2):
                viol('explicit map directory gives a different tree', file=f)
        except Exception as e:
            viol('explicit map directory load fails', file=f, error='%s: %s' % (type(e).__name__, str(e)[:120]))
        paths = {}
        for n in walk(m):
            out['nodes'] += 1
            kind = type(n).__name__
            if kind == 'map_if':
                continue
            p = n.get_path()
            # usages / repeats / positions
            if kind in ('loop_if', 'segment_if', 'element_if', 'composite_if'):
                ck('usage in R/S/N')
                if getattr(n, 'usage', None) not in ('R', 'S', 'N'):
                    viol('usage not R/S/N', file=f, path=p, usage=repr(getattr(n, 'usage', None)))
            if kind == 'loop_if':
                ck('loop repeat well formed')
                r = n.repeat
                if not (isinstance(r, str) and (r == '>1' or r.isdigit())):
                    viol('loop repeat malformed', file=f, path=p, repeat=repr(r))
            if kind == 'segment_if':
                ck('segment max_use well formed')
                r = n.max_use
                if not (isinstance(r, str) and (r == '>1' or r.isdigit())):
                    viol('segment max_use malformed', file=f, path=p, max_use=repr(r))
                ck('children seq contiguous from 1')
                seqs = [c.seq for c in n.children]
                if seqs != list(range(1, len(seqs) + 1)):
                    viol('segment children seq not contiguous from 1', file=f, path=p, seqs=seqs[:12])
            if kind == 'composite_if':
                ck('children seq contiguous from 1')
                seqs = [c.seq for c in n.children]
                if seqs != list(range(1, len(seqs) + 1)):
                    viol('composite children seq not contiguous from 1', file=f, path=p, seqs=seqs[:12])
            if kind in ('loop_if', 'segment_if'):
                ck('position is an int')
                if not isinstance(n.pos, int):
                    viol('position not an int', file=f, path=p, pos=repr(n.pos))
            if kind == 'element_if':
                ck('data element defined')
                try:
                    dataele.get_by_elem_num(n.data_ele)
                except Exception as e:
                    viol('element refers to an undefined data element', file=f, path=p, data_ele=n.data_ele)
                if n.external_codes:
                    ck('external code set defined')
                    if n.external_codes not in codes.codes and n.external_codes not in (param.get('exclude_external_codes') or ''):
                        viol('element refers to an undefined external code set', file=f, path=p, external=n.external_codes)
            # path uniqueness
            if kind in ('loop_if', 'segment_if'):
                ck('node path unique')
                if p in paths:
                    viol('two nodes report the same path', file=f, path=p)
                paths[p] = n
            # addressable by own path
            if kind in ('loop_if', 'segment_if'):
                ck('getnodebypath(own path) is the node')
                try:
                    g = m.getnodebypath(p)
                    if g is not n:
                        viol('getnodebypath(own path) returns another node', file=f, path=p, got=getattr(g, 'get_path', lambda: None)() if g is not None else None, got_kind=type(g).__name__)
                except Exception as e:
                    viol('getnodebypath(own path) fails', file=f, path=p, error='%s' % type(e).__name__)
            if kind in ('loop_if', 'segment_if', 'element_if', 'composite_if'):
                ck('getnodebypath2(own path) is the node')
                try:
                    g = m.getnodebypath2(p)
                    if g is not n:
                        viol('getnodebypath2(own path) returns another node', file=f, path=p, kind=kind,
                             got=getattr(g, 'get_path', lambda: None)() if g is not None else None, got_kind=type(g).__name__)
                except Exception as e:
                    viol('getnodebypath2(own path) fails', file=f, path=p, kind=kind, error='%s' % type(e).__name__)
            # same-position siblings distinguishable by id + qualifier
            pm = getattr(n, 'pos_map', None)
            if pm:
                for pos, sibs in pm.items():
                    if len(sibs) > 1:
                        ck('same-position siblings distinguishable')
                        keys = []
                        for sb in sibs:
                            if sb.is_segment():
                                ke = sb.get_unique_key_id_element(None) if False else None
                                quals = None
                                try:
                                    el = sb.guess_unique_key_id_element()
                                    quals = tuple(sorted(el.valid_codes)) if el is not None else None
                                except Exception:
                                    quals = None
                                keys.append((sb.id, quals))
                            else:
                                fs = sb.get_first_seg()
                                quals = None
                                if fs is not None:
                                    try:
                                        el = fs.guess_unique_key_id_element()
                                        quals = tuple(sorted(el.valid_codes)) if el is not None else None
                                    except Exception:
                                        quals = None
                                keys.append(('loop:' + (fs.id if fs is not None else '?'), quals))
                        for i in range(len(keys)):
                            for j in range(i + 1, len(keys)):
                                a, b = keys[i], keys[j]
                                if a[0] != b[0]:
                                    continue
                                if a[1] is None or b[1] is None or set(a[1]) & set(b[1]):
                                    viol('same-position siblings cannot be told apart by id and qualifier', file=f, path=p, pos=pos,
                                         a=sibs[i].get_path(), b=sibs[j].get_path(),
                                         common=sorted(set(a[1] or ()) & set(b[1] or ()))[:5])
    out['violations_total'] = len(out['violations'])
    out['samples'] = out['violations'][:3]
    return out


TASKS['c16'] = task_c16


def task_c17(repo, verif):
    """C17 ground part: the printed path of every loop and segment node of every shipped map parses and
    prints back to itself (exhaustive over the configuration; path texts of any length)"""
    import pyx12.path
    out = {'files': 0, 'nodes': 0, 'violations': [], 'max_path_len': 0}
    mdir, idx, maps, errors = load_all(repo)
    for f, m in maps.items():
        out['files'] += 1
        for n in walk(m):
            kind = type(n).__name__
            if kind not in ('loop_if', 'segment_if'):
                continue
            out['nodes'] += 1
            p = n.get_path()
            out['max_path_len'] = max(out['max_path_len'], len(p))
            try:
                xp = pyx12.path.X12Path(p)
                back = xp.format()
                xp2 = pyx12.path.X12Path(back)
            except Exception as e:
                out['violations'].append({'what': 'path of a shipped node does not parse', 'file': f, 'path': p, 'error': type(e).__name__})
                continue
            if back != p:
                out['violations'].append({'what': 'path of a shipped node does not print back', 'file': f, 'path': p, 'printed': back})
            elif not (xp == xp2):
                out['violations'].append({'what': 'parsing the printed path gives an unequal path', 'file': f, 'path': p})
    out['samples'] = []
    return out


TASKS['c17'] = task_c17


def task_c06(repo, verif):
    """C06 ground part: the acknowledgements the validator writes name a version/type that the shipped map
    index resolves for fic 'FA' (so that feeding the acknowledgement back selects the 997/999 map)"""
    import io
    import pyx12.x12n_document
    import pyx12.params
    import pyx12.map_index
    import pyx12.x12file
    from pyx12.test.x12testdata import datafiles
    out = {'acks': 0, 'violations': []}
    mi = pyx12.map_index.map_index()
    src4 = datafiles['simple_837p']['source']
    docs = [('997 for a 4010 document', src4)]
    if '834_lui_id_5010' in datafiles:
        docs.append(('999 for a 5010 document', datafiles['834_lui_id_5010']['source']))
    for label, text in docs:
        f = io.StringIO()
        pyx12.x12n_document.x12n_document(param=pyx12.params.params(), src_file=io.StringIO(text), fd_997=f, fd_html=None, fd_xmldoc=None, xslt_files=None)
        ack = f.getvalue()
        if not ack:
            out['violations'].append({'what': 'no acknowledgement written', 'doc': label})
            continue
        out['acks'] += 1
        segs = list(pyx12.x12file.X12Reader(io.StringIO(ack)))
        isa = [s for s in segs if s.get_seg_id() == 'ISA'][0]
        gs = [s for s in segs if s.get_seg_id() == 'GS'][0]
        icvn, fic, vriic = isa.get_value('ISA12'), gs.get_value('GS01'), gs.get_value('GS08')
        fn = mi.get_filename(icvn, vriic, fic)
        if fn is None:
            out['violations'].append({'what': 'acknowledgement names a version the map index does not know', 'doc': label, 'icvn': icvn, 'fic': fic, 'vriic': vriic})
        else:
            # fed back, it is validated against that map
            f2 = io.StringIO()
            try:
                r = pyx12.x12n_document.x12n_document(param=pyx12.params.params(), src_file=io.StringIO(ack), fd_997=f2, fd_html=None, fd_xmldoc=None, xslt_files=None)
                if r is not True:
                    out['violations'].append({'what': 'acknowledgement of a valid document is not accepted when fed back', 'doc': label, 'map': fn})
            except Exception as e:
                out['violations'].append({'what': 'feeding the acknowledgement back raises', 'doc': label, 'error': '%s: %s' % (type(e).__name__, e)})
    out['samples'] = []
    return out


TASKS['c06'] = task_c06


if __name__ == '__main__':
    main()
