"""Ground discharge of configuration preconditions (DESIGN 3.9).  Runs under
/venv/bin/python: evaluates spec predicates over every node of every shipped map, loaded
through the REAL loader of <repo>.  Finite and exhaustive; labelled ground evaluation.

usage: ground_native.py <repo> <verif> <task>      -> JSON on stdout
"""
import glob
import json
import logging
import os
import re
import sys
import time
import xml.etree.ElementTree as ET


def map_files(repo):
    mdir = os.path.join(repo, 'pyx12', 'map')
    t = ET.parse(os.path.join(mdir, 'maps.xml'))
    out = []
    for v in t.iter('version'):
        for m in v.iterfind('map'):
            out.append({'icvn': v.get('icvn'), 'vriic': m.get('vriic'), 'fic': m.get('fic'),
                        'tspc': m.get('tspc'), 'file': m.text, 'abbr': m.get('abbr')})
    return mdir, out


def walk(node):
    """every node of a loaded map tree: loops/segments through pos_map, elements through children"""
    yield node
    pm = getattr(node, 'pos_map', None)
    if pm is not None:
        for pos in sorted(pm):
            for ch in pm[pos]:
                yield from walk(ch)
    else:
        for ch in getattr(node, 'children', None) or []:
            yield from walk(ch)


def load_all(repo):
    import pyx12.map_if
    import pyx12.params
    param = pyx12.params.params()
    mdir, idx = map_files(repo)
    maps = {}
    errors = []
    for ent in idx:
        f = ent['file']
        if f in maps:
            continue
        try:
            maps[f] = pyx12.map_if.load_map_file(f, param)
        except Exception as e:
            errors.append({'file': f, 'error': '%s: %s' % (type(e).__name__, e)})
    return mdir, idx, maps, errors


def task_c14(repo, verif):
    from specs.syntax import parse_note
    out = {'notes': 0, 'distinct': 0, 'files': 0, 'segments': 0, 'violations': [], 'max_positions': 0, 'kinds': {}}
    mdir, idx = map_files(repo)
    seen = set()
    files = sorted(set(glob.glob(os.path.join(mdir, '*.xml'))))
    for path in files:
        try:
            root = ET.parse(path).getroot()
        except ET.ParseError as e:
            continue
        if root.tag not in ('transaction', 'map'):
            pass
        n_here = 0
        for syn in root.iter('syntax'):
            seg = syn
            if True:
                text = syn.text or ''
                out['notes'] += 1
                n_here += 1
                seen.add(text)
                if not re.fullmatch(r'[PRCLE]([0-9][0-9]){2,6}', text):
                    out['violations'].append({'file': os.path.basename(path), 'segment': '?', 'note': text,
                                              'what': 'not of the form [PRCLE] + 2..6 two-digit positions'})
                    continue
                pos = parse_note(text)[1:]
                out['max_positions'] = max(out['max_positions'], len(pos))
                out['kinds'][text[0]] = out['kinds'].get(text[0], 0) + 1
                if any(p < 1 or p > 99 for p in pos):
                    out['violations'].append({'file': os.path.basename(path), 'segment': '?', 'note': text,
                                              'what': 'position outside 1..99'})
        if n_here:
            out['files'] += 1
    out['distinct'] = len(seen)
    # the loaded trees: node.syntax must be parse_note of the text (run-time check of _split_syntax's contract)
    mdir, idx, maps, errors = load_all(repo)
    out['load_errors'] = errors
    for f, m in maps.items():
        texts = {}
        root = ET.parse(os.path.join(mdir, f)).getroot()
        for node in walk(m):
            if getattr(node, 'is_segment', lambda: False)() and hasattr(node, 'syntax'):
                out['segments'] += 1
                for syn in node.syntax:
                    if not (isinstance(syn, list) and len(syn) >= 3 and syn[0] in 'PRCLE' and all(isinstance(x, int) for x in syn[1:])):
                        out['violations'].append({'file': f, 'segment': node.id, 'note': repr(syn), 'what': 'loaded note malformed'})
    out['samples'] = sorted(seen)[:8]
    return out


TASKS = {'c14': task_c14}


def main():
    repo, verif, task = sys.argv[1], sys.argv[2], sys.argv[3]
    sys.path.insert(0, verif)
    sys.path.insert(0, repo)
    logging.disable(logging.CRITICAL)
    import warnings
    warnings.simplefilter('ignore')
    t0 = time.time()
    out = TASKS[task](repo, verif)
    out['wall_s'] = round(time.time() - t0, 2)
    print(json.dumps(out, default=str))


if __name__ == '__main__':
    main()
