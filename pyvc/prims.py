"""Symbolic meaning of the spec primitives of specs/prim.py."""
import z3
from .vals import *
from .strops import *
from .interp import Raise, EngineLimit


def call_prim(I, node, name, args, kwargs, st):
    if name == 'all_in':
        s, chars = args
        cs = chars.conc()
        if cs is None:
            raise EngineLimit('all_in with symbolic alphabet')
        codes = sorted(set(ord(c) for c in cs))
        if s.is_vec():
            f = [z3.Or([c == k for k in codes]) if codes else z3.BoolVal(False) for c in s.chars]
            yield st, SBool(z3.simplify(z3.And(f)) if f else True)
        else:
            if not codes:
                yield st, SBool(z3.Length(s.expr) == 0)
            else:
                res = [z3.Re(z3.StringVal(chr(k))) for k in codes]
                u = res[0] if len(res) == 1 else z3.Union(*res)
                yield st, SBool(z3.InRe(s.expr, z3.Star(u)))
        return
    if name == 'any_in':
        s, chars = args
        cs = chars.conc()
        codes = sorted(set(ord(c) for c in cs))
        if s.is_vec():
            f = [z3.Or([c == k for k in codes]) for c in s.chars]
            yield st, SBool(z3.simplify(z3.Or(f)) if f else False)
        else:
            RS = z3.ReSort(z3.StringSort())
            res = [z3.Re(z3.StringVal(chr(k))) for k in codes]
            u = res[0] if len(res) == 1 else z3.Union(*res)
            yield st, SBool(z3.InRe(s.expr, z3.Concat(z3.Full(RS), u, z3.Full(RS))))
        return
    if name == 'in_lang':
        s, pat = args
        p = pat.conc()
        if p is None:
            raise EngineLimit('in_lang with symbolic pattern')
        import re as pyre
        from .builtins import get_rx
        R = get_rx(p, pyre.S)
        if R.anch_start or R.anch_end:
            raise EngineLimit('in_lang pattern must not be anchored')
        if s.is_vec():
            yield st, SBool(R.vec_match(s.chars))
        else:
            yield st, SBool(z3.InRe(s.expr, R.z3re()))
        return
    if name == 'count_of':
        s, c = args
        if not (c.is_vec() and len(c.chars) == 1):
            raise EngineLimit('count_of needs one character')
        if s.is_vec():
            yield st, SInt(z3.Sum([z3.If(x == c.chars[0], 1, 0) for x in s.chars]) if s.chars else 0)
        else:
            from .contracts_rt import CNT, count_axioms
            count_axioms(I)
            yield st, SInt(CNT(s.expr, c.z()))
        return
    if name == 'digits_value':
        s, = args
        if s.is_vec():
            from .builtins import digits_value
            yield st, SInt(digits_value(s.chars))
        else:
            yield st, SInt(z3.StrToInt(s.expr))
        return
    if name in ('last_piece', 'head_text'):
        sv, sep = args
        if sv.is_vec():
            from . import pieces
            hp = pieces.HPieces(sv.z(), sep.z(), z3.BoolVal(False))
            hp.vchars = list(sv.chars)
            hp.sepc = sep.chars[0]
            for st2, head, lastc in pieces.vec_last_split(I, st, hp):
                if name == 'last_piece':
                    yield st2, SStr(chars=lastc)
                else:
                    yield st2, SStr(chars=sv.chars[:len(sv.chars) - len(lastc)])
            return
        from . import pieces
        if sv.parts is not None and SInt(sep.chars[0]).conc() == sv.parts[2]:
            yield st, (SStr(chars=list(sv.parts[1])) if name == 'last_piece' else SStr(expr=sv.parts[0]))
            return
        p = pieces.HPieces(sv.expr, sep.z(), z3.BoolVal(False))
        h, l = pieces.inst(I, st, p)
        yield st, SStr(expr=(l if name == 'last_piece' else h))
        return
    if name == 'seq_fold':
        yield from seq_fold(I, node, args, st)
        return
    if name == 'seg_val':
        v, = args
        if isinstance(v, Ref) and isinstance(st.heap[v.addr], HObj) and st.heap[v.addr].cls.startswith('opaque:'):
            yield st, st.heap[v.addr].fields['v']
        else:
            yield st, v
        return
    if name == 'seq_filter_map':
        yield from seq_filter_map(I, node, args, st)
        return
    if name == 'int_or_none':
        s, = args
        from .builtins import py_int_of_str
        for st0, s0 in I.force(st, s):
            if isinstance(s0, SNone):
                yield st0, NONE
                continue
            if not isinstance(s0, SStr):
                raise EngineLimit('int_or_none of %r' % (s0,))
            for st1, r in py_int_of_str(I, node, s0, st0):
                if isinstance(r, Raise):
                    yield st1, NONE
                else:
                    yield st1, r
        return
    if name == 'implies':
        a, b = args
        ta, tb = I.truth(st, a), I.truth(st, b)
        yield st, SBool(I._or([I._not(ta), tb]))
        return
    if name == 'iff':
        a, b = args
        ta, tb = I.truth(st, a), I.truth(st, b)
        ta = z3.BoolVal(ta) if isinstance(ta, bool) else ta
        tb = z3.BoolVal(tb) if isinstance(tb, bool) else tb
        yield st, SBool(ta == tb)
        return
    raise EngineLimit('primitive %s' % name)


_fm_ufs = {}


def _single(I, f, args, st, node):
    """call a pure spec function; must be single-valued after merging"""
    outs = list(I.call_function(f, args, {}, st.fork(), node))
    if len(outs) != 1 or isinstance(outs[0][1], Raise):
        raise EngineLimit('seq_filter_map: %s must be a total, mergeable spec function' % f.name)
    return outs[0][1]


def seq_filter_map(I, node, args, st):
    """[proj(x) for x in lst if pred(x)] over a symbolic sequence: distributed over the
    structure of the sequence term (empty / unit / concat / ite); an opaque sub-sequence is
    mapped by an uninterpreted function (sound: filter-map is a monoid homomorphism)"""
    from .tys import to_z, from_z, zsort, ListOf, Tup, Str, Int, Bool
    from .loops import shape_type
    lst, pred, proj = args
    if not isinstance(lst, Ref):
        raise EngineLimit('seq_filter_map of %r' % (lst,))
    o = st.heap[lst.addr]
    if isinstance(o, HList):
        out = []
        acc_st = st
        items = []
        # concrete length: build as a symbolic sequence as well, for uniformity
        ety_in = None
        vals = []
        for x in o.items:
            p = _single(I, pred, [x], st, node)
            v = _single(I, proj, [x], st, node)
            vals.append((I.truth(st, p), v))
        if all(isinstance(t, bool) or z3.is_true(z3.simplify(t)) or z3.is_false(z3.simplify(t)) for t, _ in vals):
            keep = [v for t, v in vals if (t if isinstance(t, bool) else z3.is_true(z3.simplify(t)))]
            yield st, I.alloc(st, HList(keep))
            return
        oty = shape_type(I, st, vals[0][1])
        parts = []
        for t, v in vals:
            t = z3.BoolVal(t) if isinstance(t, bool) else t
            parts.append(z3.If(t, z3.Unit(to_z(v, oty)), z3.Empty(z3.SeqSort(zsort(oty)))))
        e = parts[0] if len(parts) == 1 else z3.Concat(*parts)
        yield st, I.alloc(st, HSeq(e, oty))
        return
    if not isinstance(o, HSeq):
        raise EngineLimit('seq_filter_map of %r' % (o,))
    ety = o.ety
    # output element type: evaluate proj on a fresh element once
    probe = from_z(z3.Const('fm!probe', zsort(ety)), ety)
    oty = shape_type(I, st, _single(I, proj, [probe], st, node))
    if oty is None:
        raise EngineLimit('seq_filter_map: projection type')
    osort = z3.SeqSort(zsort(oty))
    key = (pred.name, proj.name, repr(ety))
    if key not in _fm_ufs:
        _fm_ufs[key] = z3.Function('fm!%s!%s' % (pred.name.rsplit('.', 1)[-1], proj.name.rsplit('.', 1)[-1]),
                                   z3.SeqSort(zsort(ety)), osort)
    F = _fm_ufs[key]
    # defining axioms of the homomorphism (instantiated by the solver where an opaque prefix is split)
    axk = ('fm-axioms', key)
    if axk not in I.axiom_keys:
        I.axiom_keys.add(axk)
        sa = z3.Const('fm!a', z3.SeqSort(zsort(ety)))
        sb = z3.Const('fm!b', z3.SeqSort(zsort(ety)))
        xv = z3.Const('fm!x', zsort(ety))
        xval = from_z(xv, ety)
        p = _single(I, pred, [xval], st, node)
        v = _single(I, proj, [xval], st, node)
        t = I.truth(st, p)
        t = z3.BoolVal(t) if isinstance(t, bool) else t
        otyx = shape_type(I, st, v)
        I.axioms.append(z3.ForAll([sa, sb], F(z3.Concat(sa, sb)) == z3.Concat(F(sa), F(sb)), patterns=[F(z3.Concat(sa, sb))]))
        I.axioms.append(z3.ForAll([xv], F(z3.Unit(xv)) == z3.If(t, z3.Unit(to_z(v, otyx)), z3.Empty(z3.SeqSort(zsort(otyx)))),
                               patterns=[F(z3.Unit(xv))]))
        I.axioms.append(F(z3.Empty(z3.SeqSort(zsort(ety)))) == z3.Empty(osort))
    I.trusted.add('seq_filter_map over an unknown prefix is an uninterpreted function; distributed over ++, unit, ite (monoid homomorphism)')

    def go(e):
        k = e.decl().kind() if z3.is_app(e) else None
        if k == z3.Z3_OP_SEQ_EMPTY:
            return z3.Empty(osort)
        if k == z3.Z3_OP_SEQ_UNIT:
            x = from_z(e.arg(0), ety)
            p = _single(I, pred, [x], st, node)
            v = _single(I, proj, [x], st, node)
            t = I.truth(st, p)
            t = z3.BoolVal(t) if isinstance(t, bool) else t
            return z3.If(t, z3.Unit(to_z(v, oty)), z3.Empty(osort))
        if k == z3.Z3_OP_SEQ_CONCAT:
            parts = [go(e.arg(i)) for i in range(e.num_args())]
            return z3.Concat(*parts)
        if k == z3.Z3_OP_ITE:
            return z3.If(e.arg(0), go(e.arg(1)), go(e.arg(2)))
        return F(e)
    yield st, I.alloc(st, HSeq(go(o.e), oty))


# ---- seq_fold ---------------------------------------------------------------------------
_fold_ufs = {}
_step_cache = {}


def val_to_z(I, st, v, t):
    """like tys.to_z but follows heap references (lists inside tuples)"""
    from .tys import to_z, zsort, ListOf, Tup, tuple_sort, Opt
    if isinstance(v, SIte) and not (v.orig is not None and v.orig[1] == repr(t)):
        return z3.If(v.c, val_to_z(I, st, v.a, t), val_to_z(I, st, v.b, t))
    if isinstance(t, ListOf):
        o = HList(v.items) if isinstance(v, STuple) else st.heap[v.addr]
        if isinstance(o, HSeq):
            return o.e
        if not o.items:
            return z3.Empty(z3.SeqSort(zsort(t.t)))
        us = [z3.Unit(val_to_z(I, st, x, t.t)) for x in o.items]
        return us[0] if len(us) == 1 else z3.Concat(*us)
    if isinstance(t, Tup):
        _, mk, _ = tuple_sort(t.ts)
        return mk(*[val_to_z(I, st, x, tt) for x, tt in zip(v.items, t.ts)])
    return to_z(v, t)


def val_from_z(I, st, e, t):
    from .tys import from_z, ListOf, Tup, tuple_sort
    if isinstance(t, ListOf):
        return I.alloc(st, HSeq(e, t.t))
    if isinstance(t, Tup):
        _, _, accs = tuple_sort(t.ts)
        return STuple([val_from_z(I, st, a(e), tt) for a, tt in zip(accs, t.ts)])
    return from_z(e, t)


def seq_fold(I, node, args, st):
    from .contract import FOLD_TYPES
    from .tys import zsort
    lst, step, init = args
    short = step.name.rsplit('.', 1)[-1]
    if short not in FOLD_TYPES:
        raise EngineLimit('seq_fold: declare FOLD_TYPES[%r]' % short)
    sty, ety = FOLD_TYPES[short]
    ssort, esort = zsort(sty), zsort(ety)
    if short not in _fold_ufs:
        _fold_ufs[short] = z3.Function('fold!' + short, ssort, z3.SeqSort(esort), ssort)
    F = _fold_ufs[short]

    def step_z(acc_z, x_z):
        ck = (short, acc_z.get_id(), x_z.get_id(), I.case_serial)
        if ck in _step_cache:
            return _step_cache[ck][0]
        r = _step_z(acc_z, x_z)
        _step_cache[ck] = (r, acc_z, x_z)     # pin the terms: ids are recycled after GC
        return r

    def _step_z(acc_z, x_z):
        s0 = st.fork()
        s0.pc = list(I.base_pc)
        accv = val_from_z(I, s0, acc_z, sty)
        xv = val_from_z(I, s0, x_z, ety)
        n0 = len(s0.pc)
        outs = []
        for st1, r in I.call_function(step, [accv, xv], {}, s0, node, _nomerge=True):
            if isinstance(r, Raise):
                chk = z3.Solver()
                chk.set('timeout', 8000)
                chk.add(*[f for f in st1.pc if not z3.is_quantifier(f)])
                if chk.check() == z3.unsat:
                    continue      # infeasible path of the step function
                raise EngineLimit('seq_fold: step function %s raises %s' % (short, r.exc.cls))
            outs.append((st1.pc[n0:], val_to_z(I, st1, r, sty)))
        res = outs[-1][1]
        for delta, rz in reversed(outs[:-1]):
            c = z3.And(delta) if len(delta) > 1 else (delta[0] if delta else z3.BoolVal(True))
            res = z3.If(c, rz, res)
        return res

    axk = ('fold-axioms', short)
    if axk not in I.axiom_keys:
        I.axiom_keys.add(axk)
        a = z3.Const('fold!a', z3.SeqSort(esort))
        b = z3.Const('fold!b', z3.SeqSort(esort))
        s = z3.Const('fold!s', ssort)
        x = z3.Const('fold!x', esort)
        I.axioms.append(z3.ForAll([s, a, b], F(s, z3.Concat(a, b)) == F(F(s, a), b), patterns=[F(s, z3.Concat(a, b))]))
        I.axioms.append(z3.ForAll([s, x], F(s, z3.Unit(x)) == step_z(s, x), patterns=[F(s, z3.Unit(x))]))
        I.axioms.append(z3.ForAll([s], F(s, z3.Empty(z3.SeqSort(esort))) == s, patterns=[F(s, z3.Empty(z3.SeqSort(esort)))]))
        I.trusted.add('seq_fold over an unknown prefix is an uninterpreted function with its defining (fold) axioms; distributed over ++, unit, ite')

    o = st.heap[lst.addr]
    if isinstance(o, HList):
        e = None
        items = [z3.Unit(val_to_z(I, st, x, ety)) for x in o.items]
        e = z3.Empty(z3.SeqSort(esort)) if not items else (items[0] if len(items) == 1 else z3.Concat(*items))
    else:
        e = o.e
    acc = val_to_z(I, st, init, sty)

    def go(e, acc):
        k = e.decl().kind() if z3.is_app(e) else None
        if k == z3.Z3_OP_SEQ_EMPTY:
            return acc
        if k == z3.Z3_OP_SEQ_UNIT:
            return step_z(acc, e.arg(0))
        if k == z3.Z3_OP_SEQ_CONCAT:
            for i in range(e.num_args()):
                acc = go(e.arg(i), acc)
            return acc
        if k == z3.Z3_OP_ITE:
            return z3.If(e.arg(0), go(e.arg(1), acc), go(e.arg(2), acc))
        return F(acc, e)
    yield st, val_from_z(I, st, go(e, acc), sty)
