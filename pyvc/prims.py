"""Symbolic meaning of the spec primitives of specs/prim.py."""
import z3
from .vals import *
from .strops import *
from .interp import Raise, EngineLimit


def call_prim(I, node, name, args, kwargs, st):
    if name == 'all_in':
        s, chars = args
        cs = chars.conc()
        if cs is None:
            raise EngineLimit('all_in with symbolic alphabet')
        codes = sorted(set(ord(c) for c in cs))
        if s.is_vec():
            f = [z3.Or([c == k for k in codes]) if codes else z3.BoolVal(False) for c in s.chars]
            yield st, SBool(z3.simplify(z3.And(f)) if f else True)
        else:
            if not codes:
                yield st, SBool(z3.Length(s.expr) == 0)
            else:
                res = [z3.Re(z3.StringVal(chr(k))) for k in codes]
                u = res[0] if len(res) == 1 else z3.Union(*res)
                yield st, SBool(z3.InRe(s.expr, z3.Star(u)))
        return
    if name == 'any_in':
        s, chars = args
        cs = chars.conc()
        codes = sorted(set(ord(c) for c in cs))
        if s.is_vec():
            f = [z3.Or([c == k for k in codes]) for c in s.chars]
            yield st, SBool(z3.simplify(z3.Or(f)) if f else False)
        else:
            RS = z3.ReSort(z3.StringSort())
            res = [z3.Re(z3.StringVal(chr(k))) for k in codes]
            u = res[0] if len(res) == 1 else z3.Union(*res)
            yield st, SBool(z3.InRe(s.expr, z3.Concat(z3.Full(RS), u, z3.Full(RS))))
        return
    if name == 'in_lang':
        s, pat = args
        p = pat.conc()
        if p is None:
            raise EngineLimit('in_lang with symbolic pattern')
        import re as pyre
        from .builtins import get_rx
        R = get_rx(p, pyre.S)
        if R.anch_start or R.anch_end:
            raise EngineLimit('in_lang pattern must not be anchored')
        if s.is_vec():
            yield st, SBool(R.vec_match(s.chars))
        else:
            yield st, SBool(z3.InRe(s.expr, R.z3re()))
        return
    if name == 'count_of':
        s, c = args
        if not (c.is_vec() and len(c.chars) == 1):
            raise EngineLimit('count_of needs one character')
        if s.is_vec():
            yield st, SInt(z3.Sum([z3.If(x == c.chars[0], 1, 0) for x in s.chars]) if s.chars else 0)
        else:
            raise EngineLimit('count_of on a native string')
        return
    if name == 'digits_value':
        s, = args
        if s.is_vec():
            from .builtins import digits_value
            yield st, SInt(digits_value(s.chars))
        else:
            yield st, SInt(z3.StrToInt(s.expr))
        return
    if name == 'implies':
        a, b = args
        ta, tb = I.truth(st, a), I.truth(st, b)
        yield st, SBool(I._or([I._not(ta), tb]))
        return
    if name == 'iff':
        a, b = args
        ta, tb = I.truth(st, a), I.truth(st, b)
        ta = z3.BoolVal(ta) if isinstance(ta, bool) else ta
        tb = z3.BoolVal(tb) if isinstance(tb, bool) else tb
        yield st, SBool(ta == tb)
        return
    raise EngineLimit('primitive %s' % name)
