"""Bounded stand-in (DESIGN 3.10) for a function whose contract is ASSUMED by the proofs: the
contract is evaluated natively (under /venv/bin/python, on the real code) over an enumerated
grid of inputs.  Labelled BOUNDED with its bound; never counted as proved.

usage: bounded_native.py <repo> <verif> <module:runner> <seed> <tier>   -> JSON
runner(seed, tier) -> {'function':..., 'evaluations': n, 'bound': text, 'failures': [ {input, detail} ]}"""
import importlib
import json
import sys


def main():
    repo, verif, spec, seed, tier = sys.argv[1:6]
    sys.path.insert(0, verif)
    sys.path.insert(0, repo)
    import warnings
    warnings.simplefilter('ignore')
    modname, fn = spec.split(':')
    m = importlib.import_module(modname)
    out = getattr(m, fn)(int(seed), tier)
    print(json.dumps(out, default=str))


if __name__ == '__main__':
    main()
