"""String operations on SStr (vector or native)."""
import z3
from .vals import *


def decode_z3_string(s):
    """z3 as_string() escapes -> python str"""
    out = []
    i = 0
    n = len(s)
    while i < n:
        if s.startswith('\\u{', i):
            j = s.index('}', i)
            out.append(chr(int(s[i + 3:j], 16)))
            i = j + 1
        else:
            out.append(s[i])
            i += 1
    return ''.join(out)


def s_len(s):
    l = s.length()
    return SInt(l)


def s_eq(a, b):
    """z3 Bool a == b"""
    if a.is_vec() and b.is_vec():
        if len(a.chars) != len(b.chars):
            return z3.BoolVal(False)
        if not a.chars:
            return z3.BoolVal(True)
        return z3.simplify(z3.And([x == y for x, y in zip(a.chars, b.chars)]))
    if a.is_vec() and not a.chars:
        return z3.Length(b.expr) == 0
    if b.is_vec() and not b.chars:
        return z3.Length(a.expr) == 0
    return a.z() == b.z()


def s_lt(a, b, strict=True):
    """lexicographic a < b (or <=)"""
    if a.is_vec() and b.is_vec():
        # build from the end
        la, lb = len(a.chars), len(b.chars)
        n = min(la, lb)
        # tail: all first n equal -> compare lengths
        if la < lb:
            res = z3.BoolVal(True)
        elif la == lb:
            res = z3.BoolVal(not strict)
        else:
            res = z3.BoolVal(False)
        for k in range(n - 1, -1, -1):
            x, y = a.chars[k], b.chars[k]
            res = z3.If(x == y, res, x < y)
        return z3.simplify(res)
    if strict:
        return a.z() < b.z()
    return a.z() <= b.z()


def s_concat(a, b):
    if getattr(a, 'tag', None) is not None and getattr(b, 'tag', None) is None and a.tag.get('suffix') is None:
        r = _s_concat(a, b)
        r.tag = dict(a.tag, suffix=b)
        return r
    return _s_concat(a, b)


def _s_concat(a, b):
    if a.is_vec() and b.is_vec():
        return SStr(chars=a.chars + b.chars)
    if a.is_vec() and not a.chars:
        return b
    if b.is_vec() and not b.chars:
        return a
    return SStr(expr=z3.Concat(a.z(), b.z()))


def s_contains_char_pred(s, pred):
    """exists char with pred (vector only)"""
    return z3.simplify(z3.Or([pred(c) for c in s.chars])) if s.chars else z3.BoolVal(False)


def s_contains(hay, needle):
    """needle in hay"""
    if needle.is_vec() and len(needle.chars) == 0:
        return z3.BoolVal(True)
    if hay.is_vec() and needle.is_vec():
        n, m = len(hay.chars), len(needle.chars)
        if m > n:
            return z3.BoolVal(False)
        alts = []
        for i in range(n - m + 1):
            alts.append(z3.And([hay.chars[i + k] == needle.chars[k] for k in range(m)]))
        return z3.simplify(z3.Or(alts))
    return z3.Contains(hay.z(), needle.z())


def cp_ok(c):
    return z3.And(c >= 0, c <= MAXCP)
