"""Runs under /venv/bin/python (the interpreter the test-suite uses): replays a
counterexample on the REAL code in <repo> and evaluates the contract natively.

usage: native_replay.py <replay.json>   (prints a JSON verdict on stdout)

replay.json: {repo, verif, qual, scope, args: {name: value}, argorder: [...], ensures: [..],
              raises: {Exc: cond|true}, exc_ensures: {...}, builder: name|null, requires: [..]}
"""
import ast
import copy
import importlib
import json
import sys
import traceback


def load(qual):
    parts = qual.split('.')
    for k in range(len(parts) - 1, 0, -1):
        try:
            m = importlib.import_module('.'.join(parts[:k]))
        except ImportError:
            continue
        o = m
        for p in parts[k:]:
            o = getattr(o, p)
        return o
    raise ImportError(qual)


class _OldRewriter(ast.NodeTransformer):
    def __init__(self):
        self.olds = []

    def visit_Call(self, node):
        self.generic_visit(node)
        if isinstance(node.func, ast.Name) and node.func.id == 'old':
            self.olds.append(node.args[0])
            return ast.copy_location(ast.Name(id='__old_%d' % (len(self.olds) - 1), ctx=ast.Load()), node)
        return node


def prep(expr):
    tree = ast.parse(expr.strip(), mode='eval')
    rw = _OldRewriter()
    tree = rw.visit(tree)
    ast.fix_missing_locations(tree)
    olds = [compile(ast.fix_missing_locations(ast.Expression(o)), '<old>', 'eval') for o in rw.olds]
    return compile(tree, '<contract>', 'eval'), olds


def main():
    spec = json.load(open(sys.argv[1]))
    sys.path.insert(0, spec['verif'])
    sys.path.insert(0, spec['repo'])
    out = attempt(spec, dict(spec['args']))
    if not out.get('confirmed') and spec.get('variants') and spec.get('builder'):
        # bounded search around the solver's model (DESIGN 4.1): same obligation, nearby receiver states
        tried = 0
        for var in spec['variants']:
            args = json.loads(json.dumps(spec['args']))
            for path, val in var.items():
                top, key = path.split('/', 1)
                args.setdefault(top, {})[key] = val
            tried += 1
            o2 = attempt(spec, args)
            if o2.get('confirmed'):
                o2['variant'] = var
                o2['variants_tried'] = tried
                o2['witness_args'] = args
                out = o2
                break
        else:
            out['variants_tried'] = tried
    print(json.dumps(out))


def attempt(spec, args):
    out = {'confirmed': False, 'detail': ''}
    try:
        ns = {}
        if spec.get('scope'):
            ns.update(vars(importlib.import_module(spec['scope'])))
        if spec.get('builder'):
            b = ns[spec['builder']]
            fn, call_args, extra = b(args)
            ns.update(extra)
            names = list(extra)
        else:
            fn = load(spec['qual'])
            if isinstance(args.get('self'), dict):
                out['detail'] = 'no native builder for the receiver state of this contract: the solver model is reported, not replayed'
                return out
            if 'self' in spec['argorder'] and 'self' not in args:
                # method whose receiver is irrelevant to the contract: an uninitialised instance
                cls = load(spec['qual'].rsplit('.', 1)[0])
                args['self'] = cls.__new__(cls)
            call_args = [args[a] for a in spec['argorder']]
            ns.update(args)
        # preconditions must hold for the witness, else the witness is not a counterexample
        for r in spec.get('requires', []):
            code, _ = prep(r)
            try:
                ok_r = eval(code, ns)
            except NameError:
                if spec.get('builder'):
                    continue        # a scenario builder (whole run through the real entry points) names no receiver: states are legal by construction
                raise
            if not ok_r:
                out['detail'] = 'witness violates requires: %s' % r
                return out
        ens = [prep(e) for e in spec.get('ensures', [])]
        oldvals = []
        for code, olds in ens:
            oldvals.append([copy.deepcopy(eval(o, ns)) for o in olds])
        exc = None
        result = None
        try:
            result = fn(*call_args)
            if hasattr(result, '__next__') and spec.get('generator'):
                result = list(result)
        except Exception as e:   # the contract decides whether it may escape
            exc = e
        out['outcome'] = ('raised %s: %s' % (type(exc).__name__, exc)) if exc is not None else ('returned %r' % (result,))
        if exc is not None:
            allowed = None
            for en, cond in spec.get('raises', {}).items():
                if any(k.__name__ == en for k in type(exc).__mro__):
                    allowed = (en, cond)
                    break
            if allowed is None:
                out['confirmed'] = True
                out['detail'] = 'exception %s escapes; the contract allows none of its classes' % type(exc).__name__
            else:
                en, cond = allowed
                if cond is not True:
                    code, _ = prep(cond)
                    if not eval(code, ns):
                        out['confirmed'] = True
                        out['detail'] = '%s raised although its condition is false: %s' % (en, cond)
        else:
            ns2 = dict(ns)
            ns2['result'] = result
            for en, cond in spec.get('raises', {}).items():
                if cond is not True:
                    code, _ = prep(cond)
                    if eval(code, ns2):
                        out['confirmed'] = True
                        out['detail'] = 'returned normally although %s is required: %s' % (en, cond)
            for (code, olds), ovs, text in zip(ens, oldvals, spec.get('ensures', [])):
                for k, v in enumerate(ovs):
                    ns2['__old_%d' % k] = v
                ok = eval(code, ns2)
                if not ok:
                    out['confirmed'] = True
                    out['detail'] = 'postcondition false on the real code: %s' % text
                    break
    except Exception:
        out['detail'] = 'replay harness error: ' + traceback.format_exc()[-1500:]
        out['harness_error'] = True
    return out


if __name__ == '__main__':
    main()
