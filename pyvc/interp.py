"""Path-splitting symbolic executor for the Python subset of DESIGN.md section 3.2.

ev(node, st)   -> yields (st', value | Raise)
ex(stmts, st)  -> yields (st', signal)   signal in NORMAL | ('return', v) | ('break',) | ('continue',) | ('raise', SExc)

Every fork copies the state (environment frames, path condition, heap map).  Heap
objects are copied before mutation (St.mut), so forks never share mutable data.
"""
import ast
import os
import re as pyre
import itertools
import z3

from .vals import *
from .tys import *
from .strops import *
from . import rx as rxmod
from .contract import REGISTRY

NORMAL = ('normal',)


class Raise:
    __slots__ = ('exc',)

    def __init__(self, exc):
        self.exc = exc


class EngineLimit(Exception):
    """construct outside the supported subset: the function is 'outside reach'"""


BUILTIN_EXC = {
    'BaseException': None, 'Exception': 'BaseException', 'ValueError': 'Exception', 'TypeError': 'Exception',
    'LookupError': 'Exception', 'IndexError': 'LookupError', 'KeyError': 'LookupError',
    'AttributeError': 'Exception', 'NameError': 'Exception', 'UnboundLocalError': 'NameError',
    'AssertionError': 'Exception', 'ZeroDivisionError': 'ArithmeticError', 'ArithmeticError': 'Exception',
    'StopIteration': 'Exception', 'DeprecationWarning': 'Exception', 'NotImplementedError': 'Exception',
    'RuntimeError': 'Exception', 'OSError': 'Exception', 'IOError': 'Exception', 'UnicodeError': 'ValueError',
}


class St:
    __slots__ = ('frames', 'pc', 'heap', 'ghost', 'exc_stack', 'depth', 'trace', 'ndef')

    def __init__(self):
        self.frames = [{}]
        self.pc = []
        self.heap = {}
        self.ghost = {}
        self.exc_stack = []
        self.depth = 0
        self.trace = []
        self.ndef = 0

    def fork(self):
        s = St.__new__(St)
        s.frames = [dict(f) for f in self.frames]
        s.pc = list(self.pc)
        s.heap = dict(self.heap)
        s.ghost = dict(self.ghost)
        s.exc_stack = list(self.exc_stack)
        s.depth = self.depth
        s.trace = list(self.trace)
        s.ndef = self.ndef
        return s

    @property
    def env(self):
        return self.frames[-1]

    def mut(self, addr):
        o = self.heap[addr].copy()
        self.heap[addr] = o
        return o

    def assume(self, f):
        if isinstance(f, bool):
            if f:
                return
            f = z3.BoolVal(False)
        self.pc.append(f)
        self.ndef += 1


class Obligation:
    def __init__(self, name, kind, pc, goal, func, site='', note=''):
        self.name = name
        self.kind = kind
        self.pc = list(pc)
        self.goal = goal      # z3 Bool that must follow from pc (False => path must be infeasible)
        self.func = func
        self.site = site
        self.note = note


class Module:
    """parsed source module (repo or spec)"""

    def __init__(self, name, path, kind):
        self.name = name
        self.path = path
        self.kind = kind
        with open(path, encoding='utf-8') as f:
            self.src = f.read()
        self.tree = ast.parse(self.src)
        self.funcs = {}
        self.classes = {}
        self.assigns = {}
        self.imports = {}
        self.star = []
        for node in self.tree.body:
            if isinstance(node, ast.FunctionDef):
                self.funcs[node.name] = node
            elif isinstance(node, ast.ClassDef):
                self.classes[node.name] = node
            elif isinstance(node, ast.Assign):
                for t in node.targets:
                    if isinstance(t, ast.Name):
                        self.assigns[t.id] = node.value
            elif isinstance(node, ast.Import):
                for a in node.names:
                    if a.asname:
                        self.imports[a.asname] = ('module', a.name)
                    else:
                        self.imports[a.name.split('.')[0]] = ('module', a.name.split('.')[0])
            elif isinstance(node, ast.ImportFrom):
                base = node.module or ''
                if node.level:
                    pkg = name.rsplit('.', node.level)[0]
                    base = pkg + ('.' + base if base else '')
                for a in node.names:
                    if a.name == '*':
                        self.star.append(base)
                    else:
                        self.imports[a.asname or a.name] = ('from', base, a.name)
        self.const_cache = {}


def stmt_text(node):
    try:
        t = ast.unparse(node)
    except Exception:
        t = type(node).__name__
    t = t.split('\n')[0]
    return t[:70]


class Interp:
    def __init__(self, repo, verif_dir, prune_timeout_ms=400, max_paths=20000):
        self.repo = repo
        self.verif = verif_dir
        self.modules = {}
        self.obligations = []
        self.covers = []
        self.fresh_n = itertools.count()
        self.inputs = {}         # z3 const name -> (const, kind) for model extraction
        self.prune_timeout_ms = prune_timeout_ms
        self.prune_rlimit = int(os.environ.get('PYVC_PRUNE_RLIMIT', prune_timeout_ms * 4000))
        self.max_paths = max_paths
        self.cur_func = None
        self.cur_contract = None
        self.trusted = set()     # assumptions used (names)
        self.used_contracts = set()
        self.inlined = set()
        self.site_ord = {}
        self.stats = {'paths': 0, 'prune_calls': 0, 'prune_unknown': 0}
        self.loop_ord_cache = {}
        self.prim = None
        self._feas_cache = {}
        self.axioms = []          # quantified lemma axioms (definitions of spec-level sequence functions)
        self.axiom_keys = set()

    # ------------------------------------------------------------------ modules
    def module(self, name):
        if name in self.modules:
            return self.modules[name]
        if name.startswith('specs') or name.startswith('contracts'):
            path = os.path.join(self.verif, *name.split('.')) + '.py'
            kind = 'spec'
        else:
            path = os.path.join(self.repo, *name.split('.'))
            if os.path.isdir(path):
                path = os.path.join(path, '__init__.py')
            else:
                path += '.py'
            kind = 'repo'
        if not os.path.exists(path):
            return None
        m = Module(name, path, kind)
        self.modules[name] = m
        return m

    def find_function(self, qual):
        """qualname 'pyx12.mod.func' or 'pyx12.mod.Class.meth' -> (Module, FunctionDef, classname|None)"""
        parts = qual.split('.')
        for k in range(len(parts) - 1, 0, -1):
            m = self.module('.'.join(parts[:k]))
            if m is None:
                continue
            rest = parts[k:]
            if len(rest) == 1 and rest[0] in m.funcs:
                return m, m.funcs[rest[0]], None
            if len(rest) == 2 and rest[0] in m.classes:
                for n in m.classes[rest[0]].body:
                    if isinstance(n, ast.FunctionDef) and n.name == rest[1]:
                        return m, n, rest[0]
        return None

    def class_node(self, qual):
        modname, cname = qual.rsplit('.', 1)
        m = self.module(modname)
        if m is None or cname not in m.classes:
            return None, None
        return m, m.classes[cname]

    def class_bases(self, qual):
        m, node = self.class_node(qual)
        out = []
        if node is None:
            return out
        for b in node.bases:
            v = self.resolve_static(m, b)
            if isinstance(v, SClass):
                out.append(v.qual)
            elif isinstance(v, SExcClass):
                out.append(v.name)
            elif isinstance(b, ast.Name):
                out.append(b.id)
        return out

    def is_exc_class(self, qual):
        if qual in BUILTIN_EXC:
            return True
        seen = set()
        todo = [qual]
        while todo:
            q = todo.pop()
            if q in seen:
                continue
            seen.add(q)
            if q in BUILTIN_EXC:
                return True
            if '.' in q:
                todo += self.class_bases(q)
        return False

    def exc_isa(self, cls, target):
        """is exception class name `cls` a subclass of `target`"""
        seen = set()
        todo = [cls]
        while todo:
            q = todo.pop()
            if q == target:
                return True
            if q in seen or q is None:
                continue
            seen.add(q)
            if q in BUILTIN_EXC:
                todo.append(BUILTIN_EXC[q])
            else:
                todo += self.class_bases(q)
        return False

    def resolve_static(self, m, node):
        """resolve a Name/Attribute in module scope without state (for bases, decorators)"""
        if isinstance(node, ast.Name):
            return self.lookup_global(m, node.id)
        if isinstance(node, ast.Attribute):
            base = self.resolve_static(m, node.value)
            if isinstance(base, SModule):
                return self.module_attr(base.name, node.attr)
        return None

    def module_attr(self, modname, attr):
        if modname == 're':
            if attr in ('S', 'DOTALL', 'ASCII', 'A', 'I', 'IGNORECASE', 'M', 'MULTILINE'):
                return SInt(int(getattr(pyre, attr)))
            if attr == 'compile':
                return SFunc('builtin', 're.compile')
            raise EngineLimit('re.%s' % attr)
        if modname in ('sys', 'os', 'os.path', 'logging', 'time', 'random', 'tempfile'):
            return SFunc('builtin', modname + '.' + attr)
        m = self.module(modname)
        if m is None:
            raise EngineLimit('module %s' % modname)
        v = self.lookup_global(m, attr, allow_builtin=False)
        if v is None:
            sub = self.module(modname + '.' + attr)
            if sub is not None:
                return SModule(modname + '.' + attr)
            raise EngineLimit('%s.%s' % (modname, attr))
        return v

    def lookup_global(self, m, name, allow_builtin=True):
        if name in m.funcs:
            kind = 'spec' if m.kind == 'spec' else 'repo'
            return SFunc(kind, m.name + '.' + name, node=m.funcs[name], module=m)
        if name in m.classes:
            q = m.name + '.' + name
            if self.is_exc_class(q):
                return SExcClass(q)
            return SClass(q, m.classes[name], m)
        if name in m.assigns:
            if name not in m.const_cache:
                st = St()
                st.frames = [{'__module__': m}]
                outs = list(self.ev(m.assigns[name], st))
                if len(outs) != 1 or isinstance(outs[0][1], Raise):
                    raise EngineLimit('module constant %s.%s' % (m.name, name))
                v = outs[0][1]
                # module-level constant: keep a frozen (heap independent) copy
                v = self.freeze(outs[0][0], v)
                if isinstance(v, SRegex):
                    v.name = m.name + '.' + name
                m.const_cache[name] = v
            return m.const_cache[name]
        if name in m.imports:
            imp = m.imports[name]
            if imp[0] == 'module':
                return SModule(imp[1])
            base, attr = imp[1], imp[2]
            sub = None
            try:
                return self.module_attr(base, attr)
            except EngineLimit:
                raise
        for sm in m.star:
            if sm.startswith('pyvc'):
                continue
            mod = self.module(sm)
            if mod is not None:
                v = self.lookup_global(mod, name, allow_builtin=False)
                if v is not None:
                    return v
        if allow_builtin:
            return self.builtin(name)
        return None

    def freeze(self, st, v):
        """turn a heap list/tuple/dict of constants into an immutable STuple (module constants)"""
        if isinstance(v, Ref):
            o = st.heap[v.addr]
            if isinstance(o, HList):
                return STuple([self.freeze(st, x) for x in o.items])
            raise EngineLimit('module-level mutable %r' % o)
        if isinstance(v, STuple):
            return STuple([self.freeze(st, x) for x in v.items])
        return v

    def builtin(self, name):
        if name in BUILTIN_EXC:
            return SExcClass(name)
        if name in ('len', 'int', 'str', 'isinstance', 'range', 'min', 'max', 'chr', 'ord', 'bool', 'abs',
                    'list', 'tuple', 'type', 'sorted', 'enumerate', 'zip', 'set', 'open', 'print', 'repr',
                    'hasattr', 'all', 'any', 'sum', 'reversed', 'object', 'iter', 'next', 'dict'):
            return SFunc('builtin', name)
        if name == 'None':
            return NONE
        if name == 'True':
            return SBool(True)
        if name == 'False':
            return SBool(False)
        if name == 'NotImplemented':
            return NOTIMPL
        return None

    # ------------------------------------------------------------------ helpers
    def fresh(self, base, sort):
        n = next(self.fresh_n)
        return z3.Const('%s!%d' % (base, n), sort)

    def alloc(self, st, obj):
        addr = 'a%d' % next(self.fresh_n)
        st.heap[addr] = obj
        return Ref(addr)

    def feasible(self, pc):
        """quick check; True unless the solver proves unsat"""
        if not pc:
            return True
        last = pc[-1]
        if z3.is_false(z3.simplify(last)):
            return False
        key = tuple(f.get_id() for f in pc)
        strong = getattr(self, '_strong_prune', 0) > 0
        if key in self._feas_cache and (self._feas_cache[key][2] or not strong):
            return self._feas_cache[key][0]
        s = z3.Solver() if os.environ.get('PYVC_PRUNE_SOLVER') == 'default' else z3.SimpleSolver()      # the incremental SMT core: no tactic preprocessing (ctx-simplify can run for minutes and ignores the limits)
        # a deterministic resource limit decides how long a feasibility check may take, NOT the wall clock: the set of explored
        # paths (and so the verdict) must not depend on how busy the machine is.  The wall-clock timeout is only a safety net.
        # (the guard of a loop that is being unrolled gets ten times the budget: an undecided guard there means another
        # iteration, and after 40 of them the function is given up as outside reach)
        s.set('rlimit', self.prune_rlimit * (10 if strong else 1))
        s.set('timeout', max(4000, self.prune_timeout_ms * 10) * (5 if strong else 1))
        # quantified lemma axioms only slow a satisfiability check down; dropping them weakens
        # the query, which is sound for pruning (unsat of a subset => unsat of the whole)
        s.add(*[f for f in pc if not z3.is_quantifier(f)])
        self.stats['prune_calls'] += 1
        r = s.check()
        if r == z3.unknown:
            self.stats['prune_unknown'] += 1
        res = r != z3.unsat
        # the formulas are kept alive with the entry: z3 AST ids are recycled after garbage collection
        self._feas_cache[key] = (res, list(pc), r != z3.unknown or strong)
        return res

    def split(self, st, cond):
        """cond: z3 Bool or python bool -> yields (st, bool)"""
        if isinstance(cond, bool):
            yield st, cond
            return
        c = z3.simplify(cond)
        if z3.is_true(c):
            yield st, True
            return
        if z3.is_false(c):
            yield st, False
            return
        if self._has_internal(c):
            c = cond    # keep solver-internal symbols (seq.nth_i/_u) out of the queries
        st_t = st.fork()
        st_t.pc.append(c)
        if self.feasible(st_t.pc):
            yield st_t, True
        st_f = st
        st_f.pc.append(z3.Not(c))
        if self.feasible(st_f.pc):
            yield st_f, False

    _internal_cache = {}

    def snoc_lemma(self, st, e):
        """instance of the sequence fact  len(s) >= 1  =>  s == s[:-1] ++ [s[-1]]  (valid in the
        theory of sequences; checked once per run by lemma_selfcheck) - helps the solvers"""
        n = z3.Length(e)
        st.pc.append(z3.Implies(n >= 1, e == z3.Concat(z3.Extract(e, 0, n - 1), z3.Unit(e[n - 1]))))
        self.trusted.add('lemma instance: s == s[:-1] ++ [s[-1]] for non-empty sequences (valid in the sequence theory; self-checked)')

    def _has_internal(self, e):
        k = e.get_id()
        r = self._internal_cache.get(k)
        if r is None:
            r = ('nth_' in e.sexpr(), e)      # keep e alive: ids are recycled after garbage collection
            if len(self._internal_cache) > 200000:
                self._internal_cache.clear()
            self._internal_cache[k] = r
        return r[0]

    def oblige(self, st, kind, goal, node=None, note='', name=None):
        site = stmt_text(node) if node is not None else ''
        if name is None:
            name = '%s#%s@%s' % (self.cur_func, kind, site)
        self.obligations.append(Obligation(name, kind, st.pc, goal, self.cur_func, site, note))

    def exc(self, cls, node=None, msg=None):
        return Raise(SExc(cls, (msg,) if msg is not None else (), site=stmt_text(node) if node is not None else None))

    # ------------------------------------------------------------------ truthiness / equality
    def truth(self, st, v):
        """-> z3 Bool / python bool (no forking, no user __len__/__bool__ for plain values)"""
        if isinstance(v, SBool):
            return v.e
        if isinstance(v, SIte):
            ta, tb = self.truth(st, v.a), self.truth(st, v.b)
            ta = z3.BoolVal(ta) if isinstance(ta, bool) else ta
            tb = z3.BoolVal(tb) if isinstance(tb, bool) else tb
            return z3.If(v.c, ta, tb)
        if isinstance(v, SInt):
            return v.e != 0
        if isinstance(v, SStr):
            if v.is_vec():
                return len(v.chars) > 0
            return z3.Length(v.expr) > 0
        if isinstance(v, SNone):
            return False
        if isinstance(v, STuple):
            return len(v.items) > 0
        if isinstance(v, (SMatch, SFunc, SClass, SModule, SRegex, SExc, SExcClass, SOpaque)):
            if isinstance(v, SOpaque):
                tb = self.opaque_truth(st, v)
                if tb is not None:
                    return tb
            return True
        if isinstance(v, Ref):
            o = st.heap[v.addr]
            if isinstance(o, HList):
                return len(o.items) > 0
            if isinstance(o, HDict):
                return len(o.items) > 0
            if isinstance(o, HSeq):
                return z3.Length(o.e) > 0
            if type(o).__name__ == 'HPieces':
                return z3.Not(o.empty)
            if isinstance(o, HSplit):
                return True
            if isinstance(o, HObj):
                if self.find_method(o.cls, '__len__') or self.find_method(o.cls, '__bool__'):
                    raise EngineLimit('truthiness of object with __len__ (%s)' % o.cls)
                return True
        raise EngineLimit('truth of %r' % (v,))

    def opaque_truth(self, st, v):
        return None

    def values_eq(self, st, a, b):
        """z3 Bool / python bool for a == b (structural; no user __eq__)"""
        if isinstance(a, SIte):
            x, y = self.values_eq(st, a.a, b), self.values_eq(st, a.b, b)
            return z3.If(a.c, self._zb(x), self._zb(y))
        if isinstance(b, SIte):
            x, y = self.values_eq(st, a, b.a), self.values_eq(st, a, b.b)
            return z3.If(b.c, self._zb(x), self._zb(y))
        if isinstance(a, SNone) or isinstance(b, SNone):
            return isinstance(a, SNone) and isinstance(b, SNone)
        if isinstance(a, (SInt, SBool)) and isinstance(b, (SInt, SBool)):
            ea = a.e if isinstance(a, SInt) else z3.If(a.e, 1, 0)
            eb = b.e if isinstance(b, SInt) else z3.If(b.e, 1, 0)
            if isinstance(a, SBool) and isinstance(b, SBool):
                return a.e == b.e
            return ea == eb
        if isinstance(a, SStr) and isinstance(b, SStr):
            return s_eq(a, b)
        if isinstance(a, STuple) and isinstance(b, STuple):
            if len(a.items) != len(b.items):
                return False
            return self._and([self.values_eq(st, x, y) for x, y in zip(a.items, b.items)])
        if isinstance(a, Ref) and isinstance(b, Ref):
            oa, ob = st.heap[a.addr], st.heap[b.addr]
            if isinstance(oa, HList) and isinstance(ob, HList):
                if len(oa.items) != len(ob.items):
                    return False
                return self._and([self.values_eq(st, x, y) for x, y in zip(oa.items, ob.items)])
            if type(oa).__name__ == 'HPieces' and type(ob).__name__ == 'HPieces':
                from . import pieces
                return pieces.equal(self, oa, ob)
            if isinstance(oa, HSeq) and isinstance(ob, HSeq):
                return oa.e == ob.e
            if isinstance(oa, HSeq) and isinstance(ob, HList):
                return oa.e == self.list_to_seq(st, ob, oa.ety)
            if isinstance(oa, HList) and isinstance(ob, HSeq):
                return ob.e == self.list_to_seq(st, oa, ob.ety)
            if isinstance(oa, HObj) and isinstance(ob, HObj):
                if a.addr == b.addr:
                    return True
                raise EngineLimit('object equality without inlined __eq__')
        if isinstance(a, SOpaque) and isinstance(b, SOpaque):
            return a.e == b.e
        if isinstance(a, (SExcClass,)) and isinstance(b, SExcClass):
            return a.name == b.name
        if type(a) != type(b):
            # different python types compare unequal (int/bool handled above)
            kinds = (SInt, SBool, SStr, STuple, SNone)
            if isinstance(a, kinds) and isinstance(b, kinds):
                return False
            if isinstance(a, Ref) != isinstance(b, Ref) and isinstance(a, kinds + (Ref,)) and isinstance(b, kinds + (Ref,)):
                oa = st.heap[a.addr] if isinstance(a, Ref) else None
                ob = st.heap[b.addr] if isinstance(b, Ref) else None
                o = oa or ob
                if isinstance(o, (HList, HSeq, HDict)):
                    return False
        raise EngineLimit('equality of %r and %r' % (a, b))

    def _zb(self, x):
        return z3.BoolVal(x) if isinstance(x, bool) else x

    def force(self, st, v):
        """split the path on a lazy choice value"""
        if isinstance(v, SIte):
            for st1, b in self.split(st, v.c):
                yield from self.force(st1, v.a if b else v.b)
        else:
            yield st, v

    def _has_unbound(self, v):
        if isinstance(v, SUnbound):
            return True
        if isinstance(v, SIte):
            return self._has_unbound(v.a) or self._has_unbound(v.b)
        return False

    def merge_values(self, st, c, a, b):
        """value that is `a` when c else `b`"""
        if a is b:
            return a
        if isinstance(a, SBool) and isinstance(b, SBool):
            return SBool(z3.If(c, a.e, b.e))
        if isinstance(a, SInt) and isinstance(b, SInt):
            return SInt(z3.If(c, a.e, b.e))
        if isinstance(a, SNone) and isinstance(b, SNone):
            return a
        if isinstance(a, SStr) and isinstance(b, SStr):
            if a.is_vec() and b.is_vec() and len(a.chars) == len(b.chars):
                return SStr(chars=[x if x.eq(y) else z3.If(c, x, y) for x, y in zip(a.chars, b.chars)])
            if a.is_vec() and b.is_vec():
                return SIte(c, a, b)      # keep both as code-point vectors (forced - path split - on use)
            return SStr(expr=z3.If(c, a.z(), b.z()))
        if isinstance(a, STuple) and isinstance(b, STuple) and len(a.items) == len(b.items):
            return STuple([self.merge_values(st, c, x, y) for x, y in zip(a.items, b.items)])
        if isinstance(a, Ref) and isinstance(b, Ref) and a.addr == b.addr:
            return a
        if isinstance(a, SOpaque) and isinstance(b, SOpaque) and a.tname == b.tname:
            return SOpaque(z3.If(c, a.e, b.e), a.tname)
        return SIte(c, a, b)

    def pure_eval(self, node, st, cond=None):
        """evaluate `node` under st (+cond) if that is single-path, raises nothing and has no
        effect on the state; -> value or None"""
        s0 = st.fork()
        if cond is not None:
            s0.pc.append(cond)
        n0 = len(s0.pc)
        nd0 = s0.ndef
        heap0 = dict(s0.heap)
        env0 = dict(s0.env)
        gen = self.ev(node, s0)
        try:
            st1, v = next(gen)
        except StopIteration:
            return None
        second = next(gen, None)
        if second is not None:
            return None
        if isinstance(v, Raise) or len(st1.pc) != n0 or st1.ndef != nd0:
            return None
        if len(st1.env) != len(env0) or any(st1.env.get(k) is not x for k, x in env0.items()):
            return None
        for k, o in st1.heap.items():
            if k in heap0 and heap0[k] is not o:
                return None
        # objects allocated by the expression stay valid in the caller's heap
        for k, o in st1.heap.items():
            if k not in st.heap:
                st.heap[k] = o
        return v

    def _and(self, xs):
        out = []
        for x in xs:
            if isinstance(x, bool):
                if not x:
                    return False
                continue
            out.append(x)
        if not out:
            return True
        return z3.And(out) if len(out) > 1 else out[0]

    def _or(self, xs):
        out = []
        for x in xs:
            if isinstance(x, bool):
                if x:
                    return True
                continue
            out.append(x)
        if not out:
            return False
        return z3.Or(out) if len(out) > 1 else out[0]

    def _not(self, x):
        if isinstance(x, bool):
            return not x
        return z3.Not(x)

    def to_sbool(self, x):
        return SBool(x)

    def list_to_seq(self, st, hl, ety):
        if not hl.items:
            return z3.Empty(z3.SeqSort(zsort(ety)))
        us = [z3.Unit(to_z(x, ety)) for x in hl.items]
        return us[0] if len(us) == 1 else z3.Concat(*us)

    # ------------------------------------------------------------------ expressions
    def ev_list(self, nodes, st):
        if not nodes:
            yield st, []
            return
        for st1, v in self.ev(nodes[0], st):
            if isinstance(v, Raise):
                yield st1, v
                continue
            for st2, rest in self.ev_list(nodes[1:], st1):
                if isinstance(rest, Raise):
                    yield st2, rest
                else:
                    yield st2, [v] + rest

    def ev(self, node, st):
        m = getattr(self, 'ev_' + type(node).__name__, None)
        if m is None:
            raise EngineLimit('expression %s' % type(node).__name__)
        return m(node, st)

    def ev_Constant(self, node, st):
        v = node.value
        if v is None:
            yield st, NONE
        elif isinstance(v, bool):
            yield st, SBool(v)
        elif isinstance(v, int):
            yield st, SInt(v)
        elif isinstance(v, str):
            yield st, SStr.const(v)
        else:
            raise EngineLimit('constant %r' % (v,))

    def ev_Name(self, node, st):
        name = node.id
        env = st.env
        if name in env:
            v = env[name]
            if v is UNBOUND:
                yield st, self.exc('UnboundLocalError', node)
            elif isinstance(v, SIte) and self._has_unbound(v):
                for st1, v1 in self.force(st, v):
                    if isinstance(v1, SUnbound):
                        yield st1, self.exc('UnboundLocalError', node)
                    else:
                        st1.env[name] = v1
                        yield st1, v1
            else:
                yield st, v
            return
        if name in env.get('__locals__', ()):
            yield st, self.exc('UnboundLocalError', node)
            return
        m = env.get('__module__')
        v = self.lookup_global(m, name) if m is not None else self.builtin(name)
        if v is None:
            if name in st.ghost:
                yield st, st.ghost[name]
                return
            raise EngineLimit('unresolved name %s' % name)
        yield st, v

    def ev_Tuple(self, node, st):
        for st1, vs in self.ev_list(node.elts, st):
            if isinstance(vs, Raise):
                yield st1, vs
            else:
                yield st1, STuple(vs)

    def ev_List(self, node, st):
        for st1, vs in self.ev_list(node.elts, st):
            if isinstance(vs, Raise):
                yield st1, vs
            else:
                yield st1, self.alloc(st1, HList(vs))

    def ev_Dict(self, node, st):
        for st1, ks in self.ev_list(node.keys, st):
            if isinstance(ks, Raise):
                yield st1, ks
                continue
            for st2, vs in self.ev_list(node.values, st1):
                if isinstance(vs, Raise):
                    yield st2, vs
                    continue
                yield st2, self.alloc(st2, HDict(list(zip(ks, vs))))

    def ev_IfExp(self, node, st):
        for st1, c in self.ev(node.test, st):
            if isinstance(c, Raise):
                yield st1, c
                continue
            t = self.truth(st1, c)
            if not isinstance(t, bool):
                t = z3.simplify(t)
                if not (z3.is_true(t) or z3.is_false(t)):
                    va = self.pure_eval(node.body, st1, t)
                    vb = self.pure_eval(node.orelse, st1, z3.Not(t)) if va is not None else None
                    if va is not None and vb is not None:
                        yield st1, self.merge_values(st1, t, va, vb)
                        continue
            for st2, b in self.branch(st1, c):
                yield from self.ev(node.body if b else node.orelse, st2)

    def branch(self, st, v):
        """split on truthiness of value v"""
        t = self.truth(st, v)
        return self.split(st, t)

    def ev_BoolOp(self, node, st):
        is_and = isinstance(node.op, ast.And)

        def go(i, st):
            for st1, v in self.ev(node.values[i], st):
                if isinstance(v, Raise) or i == len(node.values) - 1:
                    yield st1, v
                    continue
                # merge when the rest is single-path, total and side-effect free
                t = self.truth(st1, v)
                if not isinstance(t, bool):
                    t = z3.simplify(t)
                    if not (z3.is_true(t) or z3.is_false(t)):
                        rest = ast.BoolOp(op=node.op, values=node.values[i + 1:]) if i + 2 < len(node.values) else node.values[i + 1]
                        vr = self.pure_eval(rest, st1, t if is_and else z3.Not(t))
                        if vr is not None:
                            yield st1, (self.merge_values(st1, t, vr, v) if is_and else self.merge_values(st1, t, v, vr))
                            continue
                for st2, b in self.branch(st1, v):
                    if is_and:
                        if b:
                            yield from go(i + 1, st2)
                        else:
                            yield st2, v
                    else:
                        if b:
                            yield st2, v
                        else:
                            yield from go(i + 1, st2)
        return go(0, st)

    def ev_UnaryOp(self, node, st):
        for st1, v in self.ev(node.operand, st):
            if isinstance(v, Raise):
                yield st1, v
                continue
            if isinstance(node.op, ast.Not):
                t = self.truth(st1, v)
                yield st1, SBool(self._not(t)) if not isinstance(t, bool) else SBool(not t)
            elif isinstance(node.op, ast.USub):
                if isinstance(v, (SInt, SBool)):
                    yield st1, SInt(-self.as_int(v))
                else:
                    yield st1, self.exc('TypeError', node)
            else:
                raise EngineLimit('unary op')

    def as_int(self, v):
        if isinstance(v, SInt):
            return v.e
        if isinstance(v, SBool):
            return z3.If(v.e, z3.IntVal(1), z3.IntVal(0))
        raise EngineLimit('int expected: %r' % (v,))

    def ev_BinOp(self, node, st):
        for st1, vs in self.ev_list([node.left, node.right], st):
            if isinstance(vs, Raise):
                yield st1, vs
                continue
            yield from self.binop(node, node.op, vs[0], vs[1], st1)

    def binop(self, node, op, a, b, st):
        if isinstance(a, SIte) or isinstance(b, SIte):
            for st1, a1 in self.force(st, a):
                for st2, b1 in self.force(st1, b):
                    yield from self.binop(node, op, a1, b1, st2)
            return
        num = (SInt, SBool)
        if isinstance(a, SBool) and isinstance(b, SBool) and isinstance(op, (ast.BitOr, ast.BitAnd)):
            yield st, SBool(z3.Or(a.e, b.e) if isinstance(op, ast.BitOr) else z3.And(a.e, b.e))
            return
        if isinstance(a, num) and isinstance(b, num):
            x, y = self.as_int(a), self.as_int(b)
            if isinstance(op, ast.Add):
                yield st, SInt(x + y)
            elif isinstance(op, ast.Sub):
                yield st, SInt(x - y)
            elif isinstance(op, ast.Mult):
                yield st, SInt(x * y)
            elif isinstance(op, (ast.FloorDiv, ast.Mod)):
                yv = z3.simplify(y)
                if z3.is_int_value(yv) and yv.as_long() > 0:
                    # z3 div/mod coincide with python floor semantics for a positive divisor
                    yield st, SInt(x / y if isinstance(op, ast.FloorDiv) else x % y)
                elif z3.is_int_value(yv) and yv.as_long() == 0:
                    yield st, self.exc('ZeroDivisionError', node)
                else:
                    raise EngineLimit('division by non-constant')
            elif isinstance(op, ast.BitOr):
                xa, ya = SInt(x).conc(), SInt(y).conc()
                if xa is None or ya is None:
                    raise EngineLimit('bit-or of symbolic ints')
                yield st, SInt(xa | ya)
            else:
                raise EngineLimit('int op %s' % type(op).__name__)
            return
        if isinstance(a, SStr) and isinstance(b, SStr) and isinstance(op, ast.Add):
            yield st, s_concat(a, b)
            return
        if isinstance(a, SStr) and isinstance(op, ast.Mod):
            yield from self.fmt_percent(node, a, b, st)
            return
        if isinstance(a, SStr) and isinstance(b, num) and isinstance(op, ast.Mult):
            n = SInt(self.as_int(b)).conc()
            if n is None or not a.is_vec():
                raise EngineLimit('str * symbolic')
            yield st, SStr(chars=a.chars * max(n, 0))
            return
        if isinstance(op, ast.Add) and isinstance(a, Ref) and isinstance(b, Ref):
            oa, ob = st.heap[a.addr], st.heap[b.addr]
            if isinstance(oa, HList) and isinstance(ob, HList):
                yield st, self.alloc(st, HList(oa.items + ob.items))
                return
            if isinstance(oa, (HSeq, HList)) and isinstance(ob, (HSeq, HList)):
                ety = oa.ety if isinstance(oa, HSeq) else ob.ety
                ea = oa.e if isinstance(oa, HSeq) else self.list_to_seq(st, oa, ety)
                eb = ob.e if isinstance(ob, HSeq) else self.list_to_seq(st, ob, ety)
                yield st, self.alloc(st, HSeq(z3.Concat(ea, eb), ety))
                return
        if isinstance(op, ast.Add) and isinstance(a, STuple) and isinstance(b, STuple):
            yield st, STuple(a.items + b.items)
            return
        if isinstance(op, ast.Add) and ((isinstance(a, SStr) and isinstance(b, (SInt, SBool, SNone))) or
                                        (isinstance(b, SStr) and isinstance(a, (SInt, SBool, SNone)))):
            yield st, self.exc('TypeError', node)
            return
        raise EngineLimit('binop %s on %r, %r' % (type(op).__name__, a, b))

    def ev_Compare(self, node, st):
        def go(i, left, st):
            for st1, right in self.ev(node.comparators[i], st):
                if isinstance(right, Raise):
                    yield st1, right
                    continue
                for st2, r in self.compare(node, node.ops[i], left, right, st1):
                    if isinstance(r, Raise) or i == len(node.ops) - 1:
                        yield st2, r
                        continue
                    for st3, b in self.branch(st2, r):
                        if b:
                            yield from go(i + 1, right, st3)
                        else:
                            yield st3, r
        for st0, left in self.ev(node.left, st):
            if isinstance(left, Raise):
                yield st0, left
                continue
            yield from go(0, left, st0)

    def compare(self, node, op, a, b, st):
        if isinstance(a, SIte) or isinstance(b, SIte):
            r = self.compare_lazy(node, op, a, b, st)
            if r is not None:
                yield st, r
                return
            for st1, a1 in self.force(st, a):
                for st2, b1 in self.force(st1, b):
                    yield from self.compare(node, op, a1, b1, st2)
            return
        if isinstance(op, (ast.Eq, ast.NotEq)):
            # user-defined __eq__ on repo objects
            if isinstance(a, Ref) and isinstance(st.heap[a.addr], HObj):
                oa = st.heap[a.addr]
                mname = '__eq__' if isinstance(op, ast.Eq) else '__ne__'
                f = self.find_method(oa.cls, mname)
                if f is not None:
                    for st1, r in self.call_function(f, [a, b], {}, st, node):
                        if isinstance(r, SNotImplemented):
                            yield st1, SBool(isinstance(op, ast.NotEq))
                        else:
                            yield st1, r
                    return
                yield st, SBool((isinstance(b, Ref) and a.addr == b.addr) == isinstance(op, ast.Eq))
                return
            e = self.values_eq(st, a, b)
            if isinstance(op, ast.NotEq):
                e = self._not(e)
            yield st, SBool(e)
            return
        if isinstance(op, (ast.Is, ast.IsNot)):
            if isinstance(a, SNone) or isinstance(b, SNone):
                r = isinstance(a, SNone) and isinstance(b, SNone)
            elif isinstance(a, SBool) and isinstance(b, SBool):
                r = a.e == b.e
            elif isinstance(a, Ref) and isinstance(b, Ref):
                r = a.addr == b.addr
            elif isinstance(a, SNotImplemented) or isinstance(b, SNotImplemented):
                r = isinstance(a, SNotImplemented) and isinstance(b, SNotImplemented)
            elif isinstance(a, (SClass, SExcClass)) and isinstance(b, (SClass, SExcClass)):
                r = repr(a) == repr(b)
            elif type(a) != type(b):
                r = False
            else:
                raise EngineLimit('is on %r %r' % (a, b))
            if isinstance(op, ast.IsNot):
                r = self._not(r)
            yield st, SBool(r)
            return
        if isinstance(op, (ast.Lt, ast.LtE, ast.Gt, ast.GtE)):
            num = (SInt, SBool)
            if isinstance(a, num) and isinstance(b, num):
                x, y = self.as_int(a), self.as_int(b)
                r = {ast.Lt: x < y, ast.LtE: x <= y, ast.Gt: x > y, ast.GtE: x >= y}[type(op)]
                yield st, SBool(r)
                return
            if isinstance(a, SStr) and isinstance(b, SStr):
                if isinstance(op, ast.Lt):
                    r = s_lt(a, b, True)
                elif isinstance(op, ast.LtE):
                    r = s_lt(a, b, False)
                elif isinstance(op, ast.Gt):
                    r = s_lt(b, a, True)
                else:
                    r = s_lt(b, a, False)
                yield st, SBool(r)
                return
            if isinstance(a, (SNone, SStr, SInt, SBool)) and isinstance(b, (SNone, SStr, SInt, SBool)):
                yield st, self.exc('TypeError', node)
                return
            raise EngineLimit('ordering of %r %r' % (a, b))
        if isinstance(op, (ast.In, ast.NotIn)):
            for st1, r in self.contains(node, b, a, st):
                if isinstance(r, Raise):
                    yield st1, r
                elif isinstance(op, ast.NotIn):
                    yield st1, SBool(self._not(r))
                else:
                    yield st1, SBool(r)
            return
        raise EngineLimit('compare op')

    def compare_lazy(self, node, op, a, b, st):
        """comparison distributed over lazy choices; None when an alternative forks or raises"""
        if isinstance(a, SIte):
            x = self.compare_lazy(node, op, a.a, b, st)
            y = self.compare_lazy(node, op, a.b, b, st) if x is not None else None
            if x is None or y is None:
                return None
            return SBool(z3.If(a.c, x.e, y.e))
        if isinstance(b, SIte):
            x = self.compare_lazy(node, op, a, b.a, st)
            y = self.compare_lazy(node, op, a, b.b, st) if x is not None else None
            if x is None or y is None:
                return None
            return SBool(z3.If(b.c, x.e, y.e))
        s0 = st.fork()
        n0, nd0 = len(s0.pc), s0.ndef
        outs = []
        for o in self.compare(node, op, a, b, s0):
            outs.append(o)
            if len(outs) > 1:
                return None
        if len(outs) != 1:
            return None
        st1, r = outs[0]
        if isinstance(r, Raise) or len(st1.pc) != n0 or st1.ndef != nd0 or not isinstance(r, SBool):
            return None
        return r

    def contains(self, node, container, item, st):
        """yields (st, z3 bool | bool | Raise)"""
        if isinstance(container, SIte) or isinstance(item, SIte):
            for st1, c1 in self.force(st, container):
                for st2, i1 in self.force(st1, item):
                    yield from self.contains(node, c1, i1, st2)
            return
        if isinstance(container, SStr):
            if not isinstance(item, SStr):
                yield st, self.exc('TypeError', node)
                return
            yield st, s_contains(container, item)
            return
        if isinstance(container, STuple):
            yield st, self._or([self.values_eq(st, item, x) for x in container.items])
            return
        if isinstance(container, Ref):
            o = st.heap[container.addr]
            if isinstance(o, HList):
                yield st, self._or([self.values_eq(st, item, x) for x in o.items])
                return
            if isinstance(o, HSeq):
                if not self.type_ok(item, o.ety):
                    yield st, False
                    return
                yield st, z3.Contains(o.e, z3.Unit(to_z(item, o.ety)))
                return
            if isinstance(o, HDict):
                yield st, self._or([self.values_eq(st, item, k) for k, _ in o.items])
                return
        if isinstance(container, (SNone, SInt, SBool)):
            yield st, self.exc('TypeError', node)       # argument of type 'NoneType' / 'int' is not iterable
            return
        raise EngineLimit('in on %r' % (container,))

    def type_ok(self, v, t):
        if isinstance(v, SIte):
            return self.type_ok(v.a, t) and self.type_ok(v.b, t)
        if isinstance(t, Opt):
            return isinstance(v, SNone) or self.type_ok(v, t.t)
        if t is NoneT:
            return isinstance(v, SNone)
        if t is Int:
            return isinstance(v, (SInt, SBool))
        if t is Str:
            return isinstance(v, SStr)
        if t is Bool:
            return isinstance(v, SBool)
        if isinstance(t, Tup):
            return isinstance(v, STuple) and len(v.items) == len(t.ts) and all(self.type_ok(x, tt) for x, tt in zip(v.items, t.ts))
        if isinstance(t, Opaque):
            return isinstance(v, SOpaque) and v.tname == t.name
        return False

    # ---- subscripts ---------------------------------------------------------------
    def ev_Subscript(self, node, st):
        for st1, base in self.ev(node.value, st):
            if isinstance(base, Raise):
                yield st1, base
                continue
            if isinstance(node.slice, ast.Slice):
                parts = [node.slice.lower, node.slice.upper, node.slice.step]
                nodes = [p for p in parts if p is not None]
                for st2, vs in self.ev_list(nodes, st1):
                    if isinstance(vs, Raise):
                        yield st2, vs
                        continue
                    it = iter(vs)
                    lo = next(it) if node.slice.lower is not None else None
                    hi = next(it) if node.slice.upper is not None else None
                    step = next(it) if node.slice.step is not None else None
                    if step is not None:
                        raise EngineLimit('slice step')
                    yield from self.do_slice(node, base, lo, hi, st2)
            else:
                for st2, idx in self.ev(node.slice, st1):
                    if isinstance(idx, Raise):
                        yield st2, idx
                        continue
                    yield from self.do_index(node, base, idx, st2)

    def norm_index(self, idx, n):
        """python index normalisation for constant idx sign; returns (z3 index expr, in-bounds cond)"""
        i = self.as_int(idx)
        ic = SInt(i).conc()
        nz = n if not isinstance(n, int) else z3.IntVal(n)
        if ic is not None:
            if ic < 0:
                j = nz + ic
                return j, j >= 0
            return z3.IntVal(ic), z3.IntVal(ic) < nz
        # symbolic index: either sign possible
        j = z3.If(i < 0, nz + i, i)
        return j, z3.And(j >= 0, j < nz)

    def materialize_split(self, st, ref):
        """replace a lazily split vector string by the list of its pieces (forks on separator positions)"""
        from . import contracts_rt as C
        hs = st.heap[ref.addr]
        for st1, parts in C.split_force(self, hs, st):
            st1.heap[ref.addr] = HList(parts)
            yield st1

    def do_index(self, node, base, idx, st):
        if isinstance(base, Ref) and isinstance(st.heap[base.addr], HSplit):
            for st1 in self.materialize_split(st, base):
                yield from self.do_index(node, base, idx, st1)
            return
        if isinstance(base, SIte) or isinstance(idx, SIte):
            for st1, b1 in self.force(st, base):
                for st2, i1 in self.force(st1, idx):
                    yield from self.do_index(node, b1, i1, st2)
            return
        if isinstance(base, SStr):
            if not isinstance(idx, (SInt, SBool)):
                yield st, self.exc('TypeError', node)
                return
            n = base.length()
            j, ok = self.norm_index(idx, n)
            for st1, b in self.split(st, ok):
                if not b:
                    yield st1, self.exc('IndexError', node)
                    continue
                if base.is_vec():
                    jc = SInt(j).conc()
                    if jc is not None:
                        yield st1, SStr(chars=[base.chars[jc]])
                    else:
                        c = base.chars[-1]
                        for k in range(len(base.chars) - 2, -1, -1):
                            c = z3.If(j == k, base.chars[k], c)
                        yield st1, SStr(chars=[c])
                else:
                    yield st1, SStr(expr=z3.SubString(base.expr, j, 1))
            return
        if isinstance(base, STuple):
            ic = SInt(self.as_int(idx)).conc() if isinstance(idx, (SInt, SBool)) else None
            if ic is None:
                raise EngineLimit('symbolic tuple index')
            if -len(base.items) <= ic < len(base.items):
                yield st, base.items[ic]
            else:
                yield st, self.exc('IndexError', node)
            return
        if isinstance(base, Ref):
            o = st.heap[base.addr]
            if isinstance(o, HList):
                if not isinstance(idx, (SInt, SBool)):
                    yield st, self.exc('TypeError', node)
                    return
                j, ok = self.norm_index(idx, len(o.items))
                for st1, b in self.split(st, ok):
                    if not b:
                        yield st1, self.exc('IndexError', node)
                        continue
                    jc = SInt(j).conc()
                    if jc is not None:
                        yield st1, o.items[jc]
                    else:
                        # symbolic index into a concrete-length list: split on each position
                        for k in range(len(o.items)):
                            for st2, bb in self.split(st1.fork(), j == k):
                                if bb:
                                    yield st2, o.items[k]
                return
            if isinstance(o, HSeq):
                n = z3.Length(o.e)
                j, ok = self.norm_index(idx, n)
                for st1, b in self.split(st, ok):
                    if not b:
                        yield st1, self.exc('IndexError', node)
                    else:
                        yield st1, from_z(o.e[j], o.ety)
                return
            if type(o).__name__ == 'HPieces':
                from . import pieces
                if isinstance(idx, SInt) and idx.conc() == -1:
                    yield from pieces.last(self, node, st, o)
                    return
                raise EngineLimit('index other than [-1] into abstract split pieces')
            if isinstance(o, HDict):
                for k, v in o.items:
                    e = self.values_eq(st, idx, k)
                    for st1, b in self.split(st.fork(), e):
                        if b:
                            yield st1, v
                    st.assume(self._not(e) if not isinstance(e, bool) else (not e))
                if self.feasible(st.pc):
                    yield st, self.exc('KeyError', node)
                return
            if isinstance(o, HObj):
                f = self.find_method(o.cls, '__getitem__')
                if f is not None:
                    yield from self.call_function(f, [base, idx], {}, st, node)
                    return
                yield st, self.exc('TypeError', node)
                return
        if isinstance(base, SNone):
            yield st, self.exc('TypeError', node)
            return
        raise EngineLimit('index on %r' % (base,))

    def clamp_bound(self, b, n, default):
        """python slice bound normalisation -> z3 Int in [0, n]"""
        nz = z3.IntVal(n) if isinstance(n, int) else n
        if b is None or isinstance(b, SNone):
            return nz if default == 'n' else z3.IntVal(0)
        i = self.as_int(b)
        ic = SInt(i).conc()
        if ic is not None and isinstance(n, int):
            if ic < 0:
                ic = max(n + ic, 0)
            return z3.IntVal(min(ic, n))
        if ic is not None and ic >= 0:
            return z3.If(nz < ic, nz, z3.IntVal(ic))
        j = z3.If(i < 0, z3.If(nz + i < 0, 0, nz + i), z3.If(i > nz, nz, i))
        return j

    def do_slice(self, node, base, lo, hi, st):
        if isinstance(base, SIte) or isinstance(lo, SIte) or isinstance(hi, SIte):
            for st1, b1 in self.force(st, base):
                for st2, l1 in self.force(st1, lo):
                    for st3, h1 in self.force(st2, hi):
                        yield from self.do_slice(node, b1, l1, h1, st3)
            return
        if isinstance(base, SStr) and base.parts is not None and hi is None and isinstance(lo, SInt) and lo.conc() == 1:
            P, cs, sepc = base.parts
            for st1, emp in self.split(st, P == z3.StringVal('')):
                if emp:
                    yield st1, SStr(chars=cs[1:])
                else:
                    P2 = z3.SubString(P, 1, z3.Length(P) - 1)
                    v = SStr(expr=z3.Concat(P2, SStr(chars=cs).z()) if cs else P2)
                    v.parts = (P2, cs, sepc)
                    # P2 is again empty or ends with the separator (P had at least one character)
                    st1.pc.append(z3.Or(P2 == z3.StringVal(''), z3.SuffixOf(z3.StringVal(chr(sepc)), P2)))
                    yield st1, v
            return
        if isinstance(base, SStr):
            n = base.length()
            a = self.clamp_bound(lo, n, '0')
            b = self.clamp_bound(hi, n, 'n')
            if base.is_vec():
                ac, bc = SInt(a).conc(), SInt(b).conc()
                if ac is None or bc is None:
                    # symbolic bound on a vector: split on its value (0..n)
                    for av in (range(n + 1) if ac is None else [ac]):
                        for st1, ok1 in (self.split(st.fork(), a == av) if ac is None else [(st.fork(), True)]):
                            if not ok1:
                                continue
                            for bv in (range(n + 1) if bc is None else [bc]):
                                for st2, ok2 in (self.split(st1.fork(), b == bv) if bc is None else [(st1.fork(), True)]):
                                    if ok2:
                                        yield st2, SStr(chars=base.chars[av:bv])
                    return
                yield st, SStr(chars=base.chars[ac:bc])
            else:
                ln = z3.If(b - a < 0, 0, b - a)
                yield st, SStr(expr=z3.SubString(base.expr, a, ln))
            return
        if isinstance(base, STuple):
            a = None if lo is None else SInt(self.as_int(lo)).conc()
            b = None if hi is None else SInt(self.as_int(hi)).conc()
            if (lo is not None and a is None) or (hi is not None and b is None):
                raise EngineLimit('symbolic tuple slice')
            yield st, STuple(base.items[a:b])
            return
        if isinstance(base, Ref):
            o = st.heap[base.addr]
            if isinstance(o, HList):
                a = None if lo is None or isinstance(lo, SNone) else SInt(self.as_int(lo)).conc()
                b = None if hi is None or isinstance(hi, SNone) else SInt(self.as_int(hi)).conc()
                if (lo is not None and not isinstance(lo, SNone) and a is None) or \
                        (hi is not None and not isinstance(hi, SNone) and b is None):
                    raise EngineLimit('symbolic slice of concrete list')
                yield st, self.alloc(st, HList(o.items[a:b]))
                return
            if isinstance(o, HSeq):
                n = z3.Length(o.e)
                a = self.clamp_bound(lo, n, '0')
                b = self.clamp_bound(hi, n, 'n')
                ln = z3.If(b - a < 0, 0, b - a)
                yield st, self.alloc(st, HSeq(z3.Extract(o.e, a, ln), o.ety))
                return
        raise EngineLimit('slice of %r' % (base,))

    # ---- attributes ---------------------------------------------------------------
    def ev_Attribute(self, node, st):
        for st1, base in self.ev(node.value, st):
            if isinstance(base, Raise):
                yield st1, base
                continue
            yield from self.get_attr(node, base, node.attr, st1)

    def find_method(self, cls, name):
        """class qualname -> SFunc for method `name` along the (single-inheritance) MRO"""
        seen = set()
        todo = [cls]
        while todo:
            q = todo.pop(0)
            if q in seen:
                continue
            seen.add(q)
            m, cn = self.class_node(q) if '.' in q else (None, None)
            if cn is None:
                continue
            for n in cn.body:
                if isinstance(n, ast.FunctionDef) and n.name == name:
                    return SFunc('repo', q + '.' + name, node=n, module=m, cls=q)
                if isinstance(n, ast.Assign) and any(isinstance(t, ast.Name) and t.id == name for t in n.targets):
                    # alias such as __le__ = __lt__ or a class constant
                    return self.class_attr(q, name)
            todo += self.class_bases(q)
        return None

    def class_attr(self, cls, name):
        m, cn = self.class_node(cls)
        key = ('classattr', cls, name)
        if key in m.const_cache:
            return m.const_cache[key]
        # evaluate class body assignments in order in a scratch frame
        st = St()
        st.frames = [{'__module__': m}]
        val = None
        for n in cn.body:
            if isinstance(n, ast.Assign) and len(n.targets) == 1 and isinstance(n.targets[0], ast.Name):
                try:
                    outs = list(self.ev(n.value, st))
                except EngineLimit:
                    continue
                if len(outs) == 1 and not isinstance(outs[0][1], Raise):
                    st = outs[0][0]
                    st.env[n.targets[0].id] = outs[0][1]
            elif isinstance(n, ast.FunctionDef):
                st.env[n.name] = SFunc('repo', cls + '.' + n.name, node=n, module=m, cls=cls)
        v = st.env.get(name)
        if isinstance(v, SRegex):
            v.name = cls + '.' + name
        m.const_cache[key] = v
        return v

    def get_attr(self, node, base, attr, st):
        if isinstance(base, SIte):
            for st1, b1 in self.force(st, base):
                yield from self.get_attr(node, b1, attr, st1)
            return
        if isinstance(base, SModule):
            if base.name == 'pyx12':
                sub = self.module('pyx12.' + attr)
                if sub is not None:
                    yield st, SModule('pyx12.' + attr)
                    return
            yield st, self.module_attr(base.name, attr)
            return
        if isinstance(base, SNone):
            yield st, self.exc('AttributeError', node)
            return
        if isinstance(base, SClass):
            f = self.find_method(base.qual, attr)
            if f is not None:
                yield st, f
                return
            raise EngineLimit('class attribute %s.%s' % (base.qual, attr))
        if isinstance(base, Ref):
            o = st.heap[base.addr]
            if isinstance(o, HObj) and o.cls.startswith('opaque:'):
                yield st, SFunc('opaque', o.cls[7:] + '.' + attr, selfv=base)
                return
            if isinstance(o, HObj) and o.cls.startswith('ext.') and attr not in o.fields:
                yield st, SFunc('extmethod', o.cls + '.' + attr, selfv=base)
                return
            if isinstance(o, HObj):
                if attr in o.fields:
                    v = o.fields[attr]
                    if v is UNBOUND:
                        yield st, self.exc('AttributeError', node)
                    else:
                        yield st, v
                    return
                f = self.find_method(o.cls, attr)
                if isinstance(f, SFunc) and f.kind == 'repo':
                    # property?
                    if any(isinstance(d, ast.Name) and d.id == 'property' for d in f.node.decorator_list):
                        yield from self.call_function(f, [base], {}, st, node)
                        return
                    yield st, SFunc('method', f.name, node=f.node, module=f.module, selfv=base, cls=f.cls)
                    return
                if f is not None:
                    yield st, f
                    return
                if o.fields.get('__open__'):
                    raise EngineLimit('attribute %s of open object %s' % (attr, o.cls))
                yield st, self.exc('AttributeError', node)
                return
            if isinstance(o, (HList, HSeq, HDict)):
                yield st, SFunc('builtin', 'list.' + attr if not isinstance(o, HDict) else 'dict.' + attr, selfv=base)
                return
        if isinstance(base, SStr):
            yield st, SFunc('builtin', 'str.' + attr, selfv=base)
            return
        if isinstance(base, SRegex):
            yield st, SFunc('builtin', 'regex.' + attr, selfv=base)
            return
        if isinstance(base, SMatch):
            yield st, SFunc('builtin', 'match.' + attr, selfv=base)
            return
        if isinstance(base, SOpaque):
            yield st, SFunc('opaque', base.tname + '.' + attr, selfv=base)
            return
        if isinstance(base, SExc) and attr == 'args':
            yield st, STuple(list(base.args))
            return
        if isinstance(base, (SInt, SBool, STuple)):
            yield st, self.exc('AttributeError', node)
            return
        raise EngineLimit('attribute %s of %r' % (attr, base))

    # ---- calls ----------------------------------------------------------------------
    def ev_Call(self, node, st):
        if isinstance(node.func, ast.Name) and node.func.id == 'old' and '__old__' in st.ghost:
            from . import contracts_rt as C
            old_st = st.ghost['__old__']
            s0 = old_st.fork()
            s0.frames = [dict(f) for f in st.frames]
            n_old = len(s0.pc)
            outs = list(self.ev(node.args[0], s0))
            if any(isinstance(o[1], Raise) for o in outs):
                raise EngineLimit('old(...) must be a total expression')
            if len(outs) == 1:
                yield st, C.snapshot_value(self, outs[0][0], st, outs[0][1])
                return
            for s_old, v in outs:
                st_i = st.fork()
                st_i.pc += s_old.pc[n_old:]
                if self.feasible(st_i.pc):
                    yield st_i, C.snapshot_value(self, s_old, st_i, v)
            return
        if isinstance(node.func, ast.Name) and node.func.id in ('any', 'all') and len(node.args) == 1 and not node.keywords \
                and isinstance(node.args[0], ast.GeneratorExp) and node.func.id not in st.env:
            yield from self.ev_any_all_gen(node, st)
            return
        for st1, f in self.ev(node.func, st):
            if isinstance(f, Raise):
                yield st1, f
                continue
            argn = []
            for a in node.args:
                if isinstance(a, ast.Starred):
                    raise EngineLimit('*args')
                argn.append(a)
            kwn = []
            for k in node.keywords:
                if k.arg is None:
                    raise EngineLimit('**kwargs')
                kwn.append(k)
            for st2, vs in self.ev_list(argn + [k.value for k in kwn], st1):
                if isinstance(vs, Raise):
                    yield st2, vs
                    continue
                args = vs[:len(argn)]
                kwargs = {k.arg: v for k, v in zip(kwn, vs[len(argn):])}
                yield from self.call(node, f, args, kwargs, st2)

    def call(self, node, f, args, kwargs, st):
        lazy = [k for k, a in enumerate(args) if isinstance(a, SIte)]
        lazyk = [k for k, a in kwargs.items() if isinstance(a, SIte)]
        if isinstance(f, SIte) or ((lazy or lazyk) and not (isinstance(f, SFunc) and f.kind in ('repo', 'spec', 'method') and
                                                            not (f.module is not None and f.module.name == 'specs.prim'))):
            def go(i, args, st):
                if i == len(args):
                    def gok(ks, kw, st):
                        if not ks:
                            for st9, f1 in self.force(st, f):
                                yield from self.call(node, f1, args, kw, st9)
                            return
                        for st8, v in self.force(st, kw[ks[0]]):
                            kw2 = dict(kw)
                            kw2[ks[0]] = v
                            yield from gok(ks[1:], kw2, st8)
                    yield from gok(list(kwargs), dict(kwargs), st)
                    return
                for st1, v in self.force(st, args[i]):
                    yield from go(i + 1, args[:i] + [v] + args[i + 1:], st1)
            yield from go(0, list(args), st)
            return
        if isinstance(f, SFunc):
            if f.kind == 'builtin':
                from . import builtins as B
                yield from B.call_builtin(self, node, f, args, kwargs, st)
                return
            if f.kind == 'opaque':
                yield from self.call_opaque(node, f, args, kwargs, st)
                return
            if f.kind == 'extmethod':
                from . import contracts_rt as C
                cls, meth = f.name.rsplit('.', 1)
                h = C.EXT_METHODS.get((cls, meth))
                if h is None:
                    raise EngineLimit('external method %s' % f.name)
                yield from h(self, node, f.selfv, args, kwargs, st)
                return
            if f.kind in ('repo', 'spec', 'method'):
                if f.kind == 'method':
                    args = [f.selfv] + list(args)
                yield from self.call_function(f, args, kwargs, st, node)
                return
        if isinstance(f, SExcClass):
            yield st, SExc(f.name, args)
            return
        if isinstance(f, SClass):
            yield from self.instantiate(node, f, args, kwargs, st)
            return
        if isinstance(f, SNone):
            yield st, self.exc('TypeError', node)
            return
        raise EngineLimit('call of %r' % (f,))

    def instantiate(self, node, cls, args, kwargs, st):
        pol = self.policy(cls.qual + '.__init__')
        if pol == 'contract':
            yield from self.call_by_contract(node, cls.qual + '.__init__', args, kwargs, st, ctor=cls)
            return
        ref = self.alloc(st, HObj(cls.qual, {}))
        init = self.find_method(cls.qual, '__init__')
        if init is None:
            yield st, ref
            return
        for st1, r in self.call_function(init, [ref] + list(args), kwargs, st, node):
            if isinstance(r, Raise):
                yield st1, r
            else:
                yield st1, ref

    def policy(self, qual):
        c = self.cur_contract
        if c is not None and qual in getattr(c, 'alias', {}):
            return 'contract'
        if c is not None:
            if qual in c.inline:
                return 'inline'
            if qual in c.use:
                return 'contract'
        if qual.startswith('specs.'):
            return 'inline'
        if qual in REGISTRY and qual != self.cur_func_qual:
            return 'contract'
        if qual in REGISTRY and qual == self.cur_func_qual:
            return 'contract'   # recursive call: by own contract (partial correctness)
        return 'inline'

    cur_func_qual = None
    merge_specs = True
    case_serial = 0
    _spec_pins = []
    base_pc = ()
    opaque_specs = ()
    _uf_cache = {}

    def _argkey(self, st, v, depth=0):
        if isinstance(v, (SInt, SBool)):
            return ('p', v.e.get_id())
        if isinstance(v, SStr):
            return ('s', tuple(c.get_id() for c in v.chars)) if v.is_vec() else ('n', v.expr.get_id())
        if isinstance(v, SNone):
            return ('none',)
        if isinstance(v, SOpaque):
            return ('o', v.tname, v.e.get_id())
        if isinstance(v, STuple):
            return ('t',) + tuple(self._argkey(st, x, depth + 1) for x in v.items)
        if isinstance(v, SIte):
            return ('ite', v.c.get_id(), self._argkey(st, v.a, depth + 1), self._argkey(st, v.b, depth + 1))
        if isinstance(v, Ref) and depth < 4:
            o = st.heap[v.addr]
            if isinstance(o, HList):
                return ('l',) + tuple(self._argkey(st, x, depth + 1) for x in o.items)
            if isinstance(o, HSeq):
                return ('q', o.e.get_id())
        return None

    def _prim_result(self, v):
        if isinstance(v, (SInt, SBool, SStr, SNone, SOpaque)):
            return True
        if isinstance(v, (STuple,)):
            return all(self._prim_result(x) for x in v.items)
        if isinstance(v, SIte):
            return self._prim_result(v.a) and self._prim_result(v.b)
        return False

    def spec_call_merged(self, f, args, st, node):
        """pure spec function: evaluate all its paths once (under the function's base
        path condition only), merge them into one value; cached per argument identity"""
        keys = tuple(self._argkey(st, a) for a in args)
        if any(k is None for k in keys):
            return None
        ck = (f.name, keys, self.opaque_specs, self.case_serial)
        if not hasattr(self, '_spec_cache'):
            self._spec_cache = {}
        ent = self._spec_cache.get(ck)
        if ent is None:
            s0 = St()
            s0.pc = list(self.base_pc)
            s0.heap = dict(st.heap)
            s0.ghost = {}
            s0.frames = [{'__module__': f.module, '__func__': '<spec>', '__locals__': set()}]
            n0, nd0 = len(s0.pc), s0.ndef
            outs = []
            ok = True
            try:
                for st1, r in self.call_function(f, list(args), {}, s0, node, _nomerge=True):
                    if isinstance(r, Raise) or not self._prim_result(r):
                        ok = False
                        break
                    outs.append((st1.pc[n0:], r, st1.ndef != nd0))
                    if len(outs) > 4096:
                        ok = False
                        break
            except EngineLimit:
                raise
            ent = outs if ok and outs else False
            self._spec_cache[ck] = ent
            self._spec_pins.append(list(args))    # keep the argument terms alive (ids are recycled after GC)
        if ent is False:
            return None
        if any(d for _, _, d in ent):
            st.assume(z3.Or([z3.And(delta) if delta else z3.BoolVal(True) for delta, _, _ in ent]))
        val = ent[-1][1]
        for delta, r, _ in reversed(ent[:-1]):
            c = z3.And(delta) if len(delta) > 1 else (delta[0] if delta else z3.BoolVal(True))
            val = self.merge_values(st, c, r, val)
        return val

    def opaque_spec_app(self, qual, args, kwargs, st):
        """spec function kept opaque (not unfolded): an uninterpreted function of its arguments"""
        if kwargs:
            raise EngineLimit('opaque spec with keywords')
        zs = []
        for a in args:
            if isinstance(a, SStr):
                zs.append(a.z())
            elif isinstance(a, SInt):
                zs.append(a.e)
            elif isinstance(a, SBool):
                zs.append(a.e)
            else:
                raise EngineLimit('opaque spec argument %r' % (a,))
        key = (qual, tuple(z.sort().name() for z in zs))
        if key not in Interp._uf_cache:
            Interp._uf_cache[key] = z3.Function('spec!' + qual.rsplit('.', 1)[-1], *([z.sort() for z in zs] + [z3.BoolSort()]))
        return SBool(Interp._uf_cache[key](*zs))

    def bind_args(self, fnode, args, kwargs, st, node):
        """-> dict or Raise(TypeError)"""
        a = fnode.args
        if a.vararg or a.kwarg or a.kwonlyargs or a.posonlyargs:
            raise EngineLimit('signature of %s' % fnode.name)
        names = [x.arg for x in a.args]
        if len(args) > len(names):
            return self.exc('TypeError', node)
        env = {}
        for n, v in zip(names, args):
            env[n] = v
        for k, v in kwargs.items():
            if k not in names or k in env:
                return self.exc('TypeError', node)
            env[k] = v
        ndef = len(a.defaults)
        for i, n in enumerate(names):
            if n not in env:
                di = i - (len(names) - ndef)
                if di < 0:
                    return self.exc('TypeError', node)
                env[n] = ('__default__', a.defaults[di])
        return env

    def call_function(self, f, args, kwargs, st, node, _nomerge=False):
        qual = f.name
        if f.module is not None and f.module.name == 'specs.prim':
            from . import prims as P
            yield from P.call_prim(self, node, qual.rsplit('.', 1)[-1], args, kwargs, st)
            return
        if f.kind == 'spec' and qual.rsplit('.', 1)[-1] in self.opaque_specs:
            yield st, self.opaque_spec_app(qual, args, kwargs, st)
            return
        if self.policy(qual) == 'contract' and f.kind != 'spec':
            yield from self.call_by_contract(node, qual, args, kwargs, st)
            return
        if f.kind == 'spec' and not kwargs and self.merge_specs and not _nomerge:
            mv = self.spec_call_merged(f, args, st, node)
            if mv is not None:
                yield st, mv
                return
        if st.depth > 40:
            raise EngineLimit('call depth (recursion without contract?) at %s' % qual)
        if f.kind != 'spec':
            self.inlined.add(qual)
        fnode = f.node
        if any(isinstance(n, (ast.Yield, ast.YieldFrom)) for n in ast.walk(fnode)):
            raise EngineLimit('generator %s called inline' % qual)
        env = self.bind_args(fnode, args, kwargs, st, node)
        if isinstance(env, Raise):
            yield st, env
            return
        # defaults are evaluated in module scope (constants only)
        for k, v in list(env.items()):
            if isinstance(v, tuple) and v and v[0] == '__default__':
                sd = St()
                sd.frames = [{'__module__': f.module}]
                sd.heap = st.heap
                outs = list(self.ev(v[1], sd))
                if len(outs) != 1 or isinstance(outs[0][1], Raise):
                    raise EngineLimit('default of %s' % k)
                env[k] = outs[0][1]
                st.heap = outs[0][0].heap
        env['__module__'] = f.module
        env['__func__'] = qual
        env['__locals__'] = self.local_names(fnode)
        if f.cls:
            env['__class__'] = f.cls
        st.frames.append(env)
        st.depth += 1
        for st1, sig in self.ex(fnode.body, st):
            st1.frames.pop()
            st1.depth -= 1
            if sig[0] == 'return':
                yield st1, sig[1]
            elif sig[0] == 'raise':
                yield st1, Raise(sig[1])
            elif sig is NORMAL:
                yield st1, NONE
            else:
                raise EngineLimit('break/continue outside loop')

    def local_names(self, fnode):
        names = set()
        for n in ast.walk(fnode):
            if isinstance(n, ast.Name) and isinstance(n.ctx, ast.Store):
                names.add(n.id)
        for n in ast.walk(fnode):
            if isinstance(n, ast.Global):
                names -= set(n.names)
        return names

    # contract call & opaque call are provided by mixin in contracts_rt.py
    def call_by_contract(self, node, qual, args, kwargs, st, ctor=None):
        from . import contracts_rt as C
        return C.call_by_contract(self, node, qual, args, kwargs, st, ctor)

    def call_opaque(self, node, f, args, kwargs, st):
        from . import contracts_rt as C
        return C.call_opaque(self, node, f, args, kwargs, st)

    # ---- comprehension ----------------------------------------------------------------
    def ev_ListComp(self, node, st):
        if len(node.generators) != 1 or node.generators[0].is_async:
            raise EngineLimit('comprehension shape')
        g = node.generators[0]
        for st1, it in self.ev(g.iter, st):
            if isinstance(it, Raise):
                yield st1, it
                continue
            items = self.concrete_iter(st1, it)
            if items is None:
                from . import contracts_rt as C
                yield from C.symbolic_listcomp(self, node, it, st1)
                return

            def go(i, acc, st):
                if i == len(items):
                    yield st, self.alloc(st, HList(acc))
                    return
                for st2, sig in self.assign_target(g.target, items[i], st):
                    if sig is not NORMAL:
                        yield st2, Raise(sig[1])
                        continue

                    def conds(k, st):
                        if k == len(g.ifs):
                            yield st, True
                            return
                        for st3, c in self.ev(g.ifs[k], st):
                            if isinstance(c, Raise):
                                yield st3, c
                                continue
                            for st4, b in self.branch(st3, c):
                                if b:
                                    yield from conds(k + 1, st4)
                                else:
                                    yield st4, False
                    for st3, ok in conds(0, st2):
                        if isinstance(ok, Raise):
                            yield st3, ok
                        elif not ok:
                            yield from go(i + 1, acc, st3)
                        else:
                            for st4, v in self.ev(node.elt, st3):
                                if isinstance(v, Raise):
                                    yield st4, v
                                else:
                                    yield from go(i + 1, acc + [v], st4)
            yield from go(0, [], st1)

    def ev_any_all_gen(self, node, st):
        """any(<gen>) / all(<gen>) over an iterable of known length, element by element with python's short circuit"""
        want = node.func.id == 'any'
        ge = node.args[0]
        if len(ge.generators) != 1 or ge.generators[0].is_async:
            raise EngineLimit('generator expression shape')
        g = ge.generators[0]
        for st1, it in self.ev(g.iter, st):
            if isinstance(it, Raise):
                yield st1, it
                continue
            items = self.concrete_iter(st1, it)
            if items is None:
                raise EngineLimit('%s() over a generator on a symbolic iterable' % node.func.id)

            def go(i, st):
                if i == len(items):
                    yield st, SBool(not want)
                    return
                for st2, sig in self.assign_target(g.target, items[i], st):
                    if sig is not NORMAL:
                        yield st2, Raise(sig[1])
                        continue

                    def conds(k, st):
                        if k == len(g.ifs):
                            yield st, True
                            return
                        for st3, c in self.ev(g.ifs[k], st):
                            if isinstance(c, Raise):
                                yield st3, c
                                continue
                            for st4, b in self.branch(st3, c):
                                if b:
                                    yield from conds(k + 1, st4)
                                else:
                                    yield st4, False
                    for st3, ok in conds(0, st2):
                        if isinstance(ok, Raise):
                            yield st3, ok
                        elif not ok:
                            yield from go(i + 1, st3)
                        else:
                            for st4, v in self.ev(ge.elt, st3):
                                if isinstance(v, Raise):
                                    yield st4, v
                                    continue
                                for st5, b in self.branch(st4, v):
                                    if b == want:
                                        yield st5, SBool(want)
                                    else:
                                        yield from go(i + 1, st5)
            yield from go(0, st1)

    def concrete_iter(self, st, it):
        """list of values when `it` has a statically known length, else None"""
        if isinstance(it, STuple):
            return list(it.items)
        if isinstance(it, SStr) and it.is_vec():
            return [SStr(chars=[c]) for c in it.chars]
        if isinstance(it, Ref):
            o = st.heap[it.addr]
            if isinstance(o, HList):
                return list(o.items)
            if isinstance(o, HDict):
                return [k for k, _ in o.items]
            if isinstance(o, HObj) and '.' in o.cls and not o.cls.startswith(('opaque:', 'ext.')):
                # old sequence protocol: a class without __iter__ whose __getitem__ is `return self.<attr>[idx]` over a
                # list of known length iterates exactly over that list (IndexError at the end stops the iteration)
                try:
                    it_m = self.find_method(o.cls, '__iter__')
                    gi = self.find_method(o.cls, '__getitem__') if it_m is None else None
                except EngineLimit:
                    gi = None
                fn = getattr(gi, 'node', None)
                body = [b for b in (fn.body if fn is not None else []) if not (isinstance(b, ast.Expr) and isinstance(b.value, ast.Constant))]
                if fn is not None and len(fn.args.args) == 2 and len(body) == 1 and isinstance(body[0], ast.Return):
                    r = body[0].value
                    if isinstance(r, ast.Subscript) and isinstance(r.value, ast.Attribute) and isinstance(r.value.value, ast.Name) \
                            and r.value.value.id == fn.args.args[0].arg and isinstance(r.slice, ast.Name) and r.slice.id == fn.args.args[1].arg:
                        inner = o.fields.get(r.value.attr)
                        if isinstance(inner, Ref) and isinstance(st.heap[inner.addr], HList):
                            return list(st.heap[inner.addr].items)
        if isinstance(it, SRange):
            a, b, s = it.conc()
            if a is not None:
                return [SInt(x) for x in range(a, b, s)]
        return None

    def ev_JoinedStr(self, node, st):
        raise EngineLimit('f-string')

    def ev_Lambda(self, node, st):
        raise EngineLimit('lambda')

    # ------------------------------------------------------------------ statements
    def ex(self, stmts, st):
        if not stmts:
            yield st, NORMAL
            return
        first, rest = stmts[0], stmts[1:]
        for st1, sig in self.ex1(first, st):
            if sig is NORMAL:
                if rest:
                    yield from self.ex(rest, st1)
                else:
                    yield st1, NORMAL
            else:
                yield st1, sig

    def ex1(self, node, st):
        self.stats['paths'] += 1
        if self.stats['paths'] > self.max_paths * 50:
            raise EngineLimit('path budget exhausted')
        m = getattr(self, 'ex_' + type(node).__name__, None)
        if m is None:
            raise EngineLimit('statement %s' % type(node).__name__)
        return m(node, st)

    def ex_Pass(self, node, st):
        yield st, NORMAL

    def ex_Global(self, node, st):
        raise EngineLimit('global statement')

    def ex_Expr(self, node, st):
        if isinstance(node.value, ast.Constant):
            yield st, NORMAL   # docstring
            return
        if isinstance(node.value, ast.Yield):
            yield from self.do_yield(node.value, st)
            return
        # print(...) is dropped (arguments are NOT evaluated only if they are constants)
        for st1, v in self.ev(node.value, st):
            if isinstance(v, Raise):
                yield st1, ('raise', v.exc)
            else:
                yield st1, NORMAL

    def do_yield(self, ynode, st):
        if ynode.value is None:
            vals = [(st, NONE)]
        else:
            vals = self.ev(ynode.value, st)
        for st1, v in vals:
            if isinstance(v, Raise):
                yield st1, ('raise', v.exc)
                continue
            from . import contracts_rt as C
            yield from C.on_yield(self, ynode, v, st1)

    def ex_Return(self, node, st):
        if node.value is None:
            yield st, ('return', NONE)
            return
        for st1, v in self.ev(node.value, st):
            if isinstance(v, Raise):
                yield st1, ('raise', v.exc)
            else:
                yield st1, ('return', v)

    def ex_Raise(self, node, st):
        if node.exc is None:
            if not st.exc_stack:
                yield st, ('raise', SExc('RuntimeError', site=stmt_text(node)))
            else:
                yield st, ('raise', st.exc_stack[-1])
            return
        for st1, v in self.ev(node.exc, st):
            if isinstance(v, Raise):
                yield st1, ('raise', v.exc)
            elif isinstance(v, SExcClass):
                yield st1, ('raise', SExc(v.name, (), site=stmt_text(node)))
            elif isinstance(v, SExc):
                if v.site is None:
                    v = SExc(v.cls, v.args, site=stmt_text(node))
                yield st1, ('raise', v)
            else:
                yield st1, ('raise', SExc('TypeError', site=stmt_text(node)))

    def ex_Assert(self, node, st):
        for st1, v in self.ev(node.test, st):
            if isinstance(v, Raise):
                yield st1, ('raise', v.exc)
                continue
            for st2, b in self.branch(st1, v):
                if b:
                    yield st2, NORMAL
                else:
                    yield st2, ('raise', SExc('AssertionError', site=stmt_text(node)))

    def ex_Assign(self, node, st):
        for st1, v in self.ev(node.value, st):
            if isinstance(v, Raise):
                yield st1, ('raise', v.exc)
                continue

            def go(i, st):
                if i == len(node.targets):
                    yield st, NORMAL
                    return
                for st2, sig in self.assign_target(node.targets[i], v, st):
                    if sig is NORMAL:
                        yield from go(i + 1, st2)
                    else:
                        yield st2, sig
            yield from go(0, st1)

    def unpack_gen(self, st, v, n, node):
        """yields (st, list of n values | Raise)"""
        if isinstance(v, SIte):
            for st1, v1 in self.force(st, v):
                yield from self.unpack_gen(st1, v1, n, node)
            return
        if isinstance(v, STuple):
            items = v.items
        elif isinstance(v, Ref) and isinstance(st.heap[v.addr], HList):
            items = st.heap[v.addr].items
        elif isinstance(v, Ref) and isinstance(st.heap[v.addr], HSeq):
            o = st.heap[v.addr]
            for st1, b in self.split(st, z3.Length(o.e) == n):
                if not b:
                    yield st1, self.exc('ValueError', node)
                else:
                    yield st1, [from_z(o.e[k], o.ety) for k in range(n)]
            return
        elif isinstance(v, Ref) and isinstance(st.heap[v.addr], HSplit):
            from . import contracts_rt as C
            yield from C.split_unpack(self, node, st.heap[v.addr], n, st)
            return
        elif isinstance(v, (SNone, SInt, SBool)):
            yield st, self.exc('TypeError', node)
            return
        else:
            raise EngineLimit('unpack of %r' % (v,))
        if len(items) != n:
            yield st, self.exc('ValueError', node)
        else:
            yield st, list(items)

    def assign_target(self, tgt, v, st):
        if isinstance(tgt, ast.Name):
            st.env[tgt.id] = v
            yield st, NORMAL
        elif isinstance(tgt, (ast.Tuple, ast.List)):
            for st0, items in self.unpack_gen(st, v, len(tgt.elts), tgt):
                if isinstance(items, Raise):
                    yield st0, ('raise', items.exc)
                    continue

                def go(i, st, items=items):
                    if i == len(tgt.elts):
                        yield st, NORMAL
                        return
                    for st2, sig in self.assign_target(tgt.elts[i], items[i], st):
                        if sig is NORMAL:
                            yield from go(i + 1, st2)
                        else:
                            yield st2, sig
                yield from go(0, st0)
        elif isinstance(tgt, ast.Attribute):
            for st1, base in self.ev(tgt.value, st):
                if isinstance(base, Raise):
                    yield st1, ('raise', base.exc)
                    continue
                if isinstance(base, Ref) and isinstance(st1.heap[base.addr], HObj):
                    o = st1.mut(base.addr)
                    o.fields[tgt.attr] = v
                    yield st1, NORMAL
                elif isinstance(base, SNone):
                    yield st1, ('raise', SExc('AttributeError', site=stmt_text(tgt)))
                else:
                    raise EngineLimit('attribute store on %r' % (base,))
        elif isinstance(tgt, ast.Subscript):
            if isinstance(tgt.slice, ast.Slice):
                raise EngineLimit('slice assignment')
            for st1, vs in self.ev_list([tgt.value, tgt.slice], st):
                if isinstance(vs, Raise):
                    yield st1, ('raise', vs.exc)
                    continue
                yield from self.store_index(tgt, vs[0], vs[1], v, st1)
        else:
            raise EngineLimit('assignment target %s' % type(tgt).__name__)

    def store_index(self, node, base, idx, v, st):
        if isinstance(base, Ref):
            o = st.heap[base.addr]
            if isinstance(o, HList):
                j, ok = self.norm_index(idx, len(o.items))
                for st1, b in self.split(st, ok):
                    if not b:
                        yield st1, ('raise', SExc('IndexError', site=stmt_text(node)))
                        continue
                    jc = SInt(j).conc()
                    if jc is None:
                        # symbolic index into a list of known length: split on its value
                        for k in range(len(o.items)):
                            for st2, bb in self.split(st1.fork(), j == k):
                                if bb:
                                    o2 = st2.mut(base.addr)
                                    o2.items[k] = v
                                    yield st2, NORMAL
                        continue
                    o2 = st1.mut(base.addr)
                    o2.items[jc] = v
                    yield st1, NORMAL
                return
            if isinstance(o, HSeq):
                n = z3.Length(o.e)
                j, ok = self.norm_index(idx, n)
                for st1, b in self.split(st, ok):
                    if not b:
                        yield st1, ('raise', SExc('IndexError', site=stmt_text(node)))
                        continue
                    o2 = st1.mut(base.addr)
                    o2.e = z3.Concat(z3.Extract(o.e, 0, j), z3.Unit(to_z(v, o.ety)), z3.Extract(o.e, j + 1, n - j - 1))
                    yield st1, NORMAL
                return
            if isinstance(o, HDict):
                o2 = st.mut(base.addr)
                for k, (kk, _) in enumerate(o2.items):
                    e = self.values_eq(st, idx, kk)
                    if e is True or (not isinstance(e, bool) and z3.is_true(z3.simplify(e))):
                        o2.items[k] = (kk, v)
                        yield st, NORMAL
                        return
                    if e is False or z3.is_false(z3.simplify(e)):
                        continue
                    raise EngineLimit('symbolic dict key store')
                o2.items.append((idx, v))
                yield st, NORMAL
                return
            if isinstance(o, HObj):
                f = self.find_method(o.cls, '__setitem__')
                if f is not None:
                    for st1, r in self.call_function(f, [base, idx, v], {}, st, node):
                        yield st1, (('raise', r.exc) if isinstance(r, Raise) else NORMAL)
                    return
        raise EngineLimit('subscript store on %r' % (base,))

    def ex_AugAssign(self, node, st):
        load = ast.copy_location(self._as_load(node.target), node)
        for st1, cur in self.ev(load, st):
            if isinstance(cur, Raise):
                yield st1, ('raise', cur.exc)
                continue
            for st2, rhs in self.ev(node.value, st1):
                if isinstance(rhs, Raise):
                    yield st2, ('raise', rhs.exc)
                    continue
                # list += list mutates in place
                if isinstance(cur, Ref) and isinstance(node.op, ast.Add) and isinstance(st2.heap[cur.addr], (HList, HSeq)):
                    from . import builtins as B
                    for st3, r in B.list_extend(self, node, cur, rhs, st2):
                        yield st3, (('raise', r.exc) if isinstance(r, Raise) else NORMAL)
                    continue
                for st3, r in self.binop(node, node.op, cur, rhs, st2):
                    if isinstance(r, Raise):
                        yield st3, ('raise', r.exc)
                    else:
                        yield from self.assign_target(node.target, r, st3)

    def _as_load(self, tgt):
        if isinstance(tgt, ast.Name):
            return ast.Name(id=tgt.id, ctx=ast.Load())
        if isinstance(tgt, ast.Attribute):
            return ast.Attribute(value=tgt.value, attr=tgt.attr, ctx=ast.Load())
        if isinstance(tgt, ast.Subscript):
            return ast.Subscript(value=tgt.value, slice=tgt.slice, ctx=ast.Load())
        raise EngineLimit('augassign target')

    def ex_Delete(self, node, st):
        def go(i, st):
            if i == len(node.targets):
                yield st, NORMAL
                return
            t = node.targets[i]
            if isinstance(t, ast.Subscript) and not isinstance(t.slice, ast.Slice):
                for st1, vs in self.ev_list([t.value, t.slice], st):
                    if isinstance(vs, Raise):
                        yield st1, ('raise', vs.exc)
                        continue
                    for st2, sig in self.del_index(t, vs[0], vs[1], st1):
                        if sig is NORMAL:
                            yield from go(i + 1, st2)
                        else:
                            yield st2, sig
            elif isinstance(t, ast.Name):
                st.env[t.id] = UNBOUND
                yield from go(i + 1, st)
            else:
                raise EngineLimit('del target')
        return go(0, st)

    def del_index(self, node, base, idx, st):
        if isinstance(base, Ref) and isinstance(st.heap[base.addr], HSplit):
            for st1 in self.materialize_split(st, base):
                yield from self.del_index(node, base, idx, st1)
            return
        if isinstance(base, Ref) and type(st.heap[base.addr]).__name__ == 'HPieces':
            from . import pieces
            if isinstance(idx, SInt) and idx.conc() == -1:
                for st1, sig in pieces.del_last(self, node, st, base):
                    yield st1, (NORMAL if sig == ('normal',) else sig)
                return
            raise EngineLimit('del other than [-1] on abstract split pieces')
        if isinstance(base, Ref):
            o = st.heap[base.addr]
            if isinstance(o, HList):
                j, ok = self.norm_index(idx, len(o.items))
                for st1, b in self.split(st, ok):
                    if not b:
                        yield st1, ('raise', SExc('IndexError', site=stmt_text(node)))
                        continue
                    jc = SInt(j).conc()
                    if jc is None:
                        raise EngineLimit('symbolic del index')
                    o2 = st1.mut(base.addr)
                    del o2.items[jc]
                    yield st1, NORMAL
                return
            if isinstance(o, HSeq):
                n = z3.Length(o.e)
                j, ok = self.norm_index(idx, n)
                last = isinstance(idx, SInt) and idx.conc() == -1
                for st1, b in self.split(st, ok):
                    if not b:
                        yield st1, ('raise', SExc('IndexError', site=stmt_text(node)))
                        continue
                    o2 = st1.mut(base.addr)
                    if last:
                        self.snoc_lemma(st1, o.e)
                        o2.e = z3.Extract(o.e, 0, n - 1)
                    else:
                        o2.e = z3.Concat(z3.Extract(o.e, 0, j), z3.Extract(o.e, j + 1, n - j - 1))
                    yield st1, NORMAL
                return
        raise EngineLimit('del on %r' % (base,))

    MERGEABLE = (ast.Assign, ast.AugAssign, ast.Expr, ast.Pass, ast.If)

    def _mergeable_block(self, stmts):
        for n in stmts:
            if not isinstance(n, self.MERGEABLE):
                return False
            if isinstance(n, ast.If) and not (self._mergeable_block(n.body) and self._mergeable_block(n.orelse)):
                return False
            for x in ast.walk(n):
                if isinstance(x, (ast.Yield, ast.YieldFrom, ast.Lambda)):
                    return False
        return True

    def ex_If(self, node, st):
        for st1, c in self.ev(node.test, st):
            if isinstance(c, Raise):
                yield st1, ('raise', c.exc)
                continue
            t = self.truth(st1, c)
            if not isinstance(t, bool):
                t = z3.simplify(t)
            if isinstance(t, bool) or z3.is_true(t) or z3.is_false(t) or \
                    not (self._mergeable_block(node.body) and self._mergeable_block(node.orelse)):
                for st2, b in self.split(st1, t):
                    yield from self.ex(node.body if b else node.orelse, st2)
                continue
            sa = st1.fork()
            sa.pc.append(t)
            sb = st1
            sb_pc0 = list(sb.pc)
            sb.pc.append(z3.Not(t))
            fa, fb = self.feasible(sa.pc), self.feasible(sb.pc)
            outs_a = list(self.ex(node.body, sa)) if fa else []
            outs_b = list(self.ex(node.orelse, sb)) if fb else []
            merged = None
            if fa and fb and len(outs_a) == 1 and len(outs_b) == 1:
                merged = self.merge_states(outs_a[0], outs_b[0], t, len(sb_pc0))
            if merged is not None:
                yield merged, NORMAL
            else:
                yield from outs_a
                yield from outs_b

    def merge_states(self, oa, ob, t, n0):
        (sa, siga), (sb, sigb) = oa, ob
        if siga is not NORMAL or sigb is not NORMAL:
            return None
        if len(sa.pc) != n0 + 1 or len(sb.pc) != n0 + 1 or sa.ndef != sb.ndef:
            return None
        if len(sa.frames) != len(sb.frames) or len(sa.exc_stack) != len(sb.exc_stack):
            return None
        if set(sa.ghost) != set(sb.ghost) or any(sa.ghost[k] is not sb.ghost[k] for k in sa.ghost):
            return None
        if set(sa.heap) != set(sb.heap):
            return None
        out = sa.fork()
        out.pc = list(sa.pc[:n0])
        for fa, fb, fo in zip(sa.frames, sb.frames, out.frames):
            for k in set(fa) | set(fb):
                x, y = fa.get(k, UNBOUND), fb.get(k, UNBOUND)
                if x is y:
                    continue
                if k.startswith('__'):
                    return None
                x = UNB if x is UNBOUND else x
                y = UNB if y is UNBOUND else y
                if not isinstance(x, V) or not isinstance(y, V):
                    return None
                fo[k] = self.merge_values(out, t, x, y)
        for addr in sa.heap:
            x, y = sa.heap[addr], sb.heap[addr]
            if x is y:
                continue
            if type(x) != type(y):
                return None
            if isinstance(x, HObj):
                if x.cls != y.cls or set(x.fields) != set(y.fields):
                    return None
                o = HObj(x.cls, {})
                for k in x.fields:
                    u, v = x.fields[k], y.fields[k]
                    if u is UNBOUND or v is UNBOUND:
                        if u is not v:
                            return None
                        o.fields[k] = u
                    else:
                        o.fields[k] = u if u is v else self.merge_values(out, t, u, v)
                out.heap[addr] = o
            elif isinstance(x, HSeq):
                if repr(x.ety) != repr(y.ety):
                    return None
                out.heap[addr] = HSeq(x.e if x.e.eq(y.e) else z3.If(t, x.e, y.e), x.ety)
            elif isinstance(x, HList):
                if len(x.items) != len(y.items):
                    return None
                out.heap[addr] = HList([u if u is v else self.merge_values(out, t, u, v) for u, v in zip(x.items, y.items)])
            else:
                return None
        return out

    def match_handler(self, h, exc, st):
        """does `except` handler h catch exc (static)"""
        if h.type is None:
            return True
        types = h.type.elts if isinstance(h.type, ast.Tuple) else [h.type]
        for t in types:
            outs = list(self.ev(t, st.fork()))
            if len(outs) != 1 or not isinstance(outs[0][1], SExcClass):
                raise EngineLimit('except clause type')
            if self.exc_isa(exc.cls, outs[0][1].name):
                return True
        return False

    def ex_Try(self, node, st):
        def fin(st, sig):
            if not node.finalbody:
                yield st, sig
                return
            for st1, s2 in self.ex(node.finalbody, st):
                if s2 is NORMAL:
                    yield st1, sig
                else:
                    yield st1, s2

        for st1, sig in self.ex(node.body, st):
            if sig is NORMAL:
                if node.orelse:
                    for st2, s2 in self.ex(node.orelse, st1):
                        yield from fin(st2, s2)
                else:
                    yield from fin(st1, sig)
            elif sig[0] == 'raise':
                exc = sig[1]
                handled = False
                for h in node.handlers:
                    if self.match_handler(h, exc, st1):
                        handled = True
                        if h.name:
                            st1.env[h.name] = exc
                        st1.exc_stack.append(exc)
                        for st2, s2 in self.ex(h.body, st1):
                            if st2.exc_stack:
                                st2.exc_stack.pop()
                            yield from fin(st2, s2)
                        break
                if not handled:
                    yield from fin(st1, sig)
            else:
                yield from fin(st1, sig)

    def ex_With(self, node, st):
        raise EngineLimit('with statement')

    # ---- loops ------------------------------------------------------------------------
    def loop_ordinal(self, node, st):
        """ordinal of a loop statement within its function (source order)"""
        fq = st.env.get('__func__')
        key = fq
        if key not in self.loop_ord_cache:
            fn = self.find_function(fq)
            d = {}
            if fn is not None:
                k = 0
                for n in ast.walk(fn[1]):
                    pass
                loops = [n for n in ast.walk(fn[1]) if isinstance(n, (ast.For, ast.While))]
                loops.sort(key=lambda n: (n.lineno, n.col_offset))
                for k, n in enumerate(loops):
                    d[(n.lineno, n.col_offset)] = k
            self.loop_ord_cache[key] = d
        return fq, self.loop_ord_cache[key].get((node.lineno, node.col_offset))

    def loop_spec(self, node, st):
        fq, k = self.loop_ordinal(node, st)
        c = REGISTRY.get(fq)
        if c is None or k is None:
            return None
        return c.loops.get(k)

    def ex_While(self, node, st):
        spec = self.loop_spec(node, st)
        if spec is not None:
            from . import loops as L
            yield from L.while_with_invariant(self, node, spec, st)
            return
        yield from self.unroll_while(node, st, 0)

    def unroll_while(self, node, st, k):
        """no invariant given: unroll, splitting on a symbolic guard; the path condition must
        bound the number of iterations (e.g. a list of known length), else 'outside reach'"""
        if k > 40:
            raise EngineLimit('while loop needs an invariant: %s' % stmt_text(node))
        for st1, c in self.ev(node.test, st):
            if isinstance(c, Raise):
                yield st1, ('raise', c.exc)
                continue
            self._strong_prune = getattr(self, '_strong_prune', 0) + (1 if k >= 3 else 0)
            try:
                branches = list(self.branch(st1, c))
            finally:
                self._strong_prune -= (1 if k >= 3 else 0)
            for st1b, t in branches:
                if not t:
                    if node.orelse:
                        yield from self.ex(node.orelse, st1b)
                    else:
                        yield st1b, NORMAL
                    continue
                for st2, sig in self.ex(node.body, st1b):
                    if sig is NORMAL or sig[0] == 'continue':
                        yield from self.unroll_while(node, st2, k + 1)
                    elif sig[0] == 'break':
                        yield st2, NORMAL
                    else:
                        yield st2, sig

    def ex_For(self, node, st):
        for st1, it in self.ev(node.iter, st):
            if isinstance(it, Raise):
                yield st1, ('raise', it.exc)
                continue
            if isinstance(it, SIte):
                for st9, it9 in self.force(st1, it):
                    yield from self.ex_For_iter(node, it9, st9)
                continue
            yield from self.ex_For_iter(node, it, st1)

    def ex_For_iter(self, node, it, st1):
        spec = self.loop_spec(node, st1)
        items = self.concrete_iter(st1, it) if spec is None or spec.get('unroll') else None
        if items is None:
            if isinstance(it, SNone) or isinstance(it, (SInt, SBool)):
                yield st1, ('raise', SExc('TypeError', site=stmt_text(node)))
                return
            if spec is None and isinstance(it, Ref) and type(st1.heap[it.addr]).__name__ == 'HPieces':
                hp = st1.heap[it.addr]
                # iteration over abstract split pieces: possible when the text provably holds no separator
                for st2, emp in self.split(st1, hp.empty):
                    if emp:
                        yield from self.unroll_for(node, [], 0, st2)
                        continue
                    if hp.vchars is not None:
                        from . import contracts_rt as C
                        hs = HSplit(SStr(chars=hp.vchars), hp.sepc, None)
                        for st3, parts in C.split_force(self, hs, st2):
                            yield from self.unroll_for(node, parts, 0, st3)
                        continue
                    chk = z3.Solver()
                    chk.set('timeout', 3000)
                    chk.add(*[f for f in st2.pc if not z3.is_quantifier(f)])
                    chk.add(z3.Contains(hp.text, hp.sep))
                    if chk.check() == z3.unsat:
                        yield from self.unroll_for(node, [SStr(expr=hp.text)], 0, st2)
                    else:
                        raise EngineLimit('for loop over the pieces of a string of unknown length: %s' % stmt_text(node))
                return
            if spec is None:
                if isinstance(it, Ref) and isinstance(st1.heap[it.addr], HSplit):
                    from . import contracts_rt as C
                    for st2, parts in C.split_force(self, st1.heap[it.addr], st1):
                        yield from self.unroll_for(node, parts, 0, st2)
                    return
                # generator object / iterable object with repo __iter__ ...
                raise EngineLimit('for loop over symbolic iterable needs an invariant: %s' % stmt_text(node))
            from . import loops as L
            yield from L.for_with_invariant(self, node, spec, it, st1)
            return
        yield from self.unroll_for(node, items, 0, st1)

    def unroll_for(self, node, items, i, st):
        if i == len(items):
            if node.orelse:
                yield from self.ex(node.orelse, st)
            else:
                yield st, NORMAL
            return
        for st1, sig in self.assign_target(node.target, items[i], st):
            if sig is not NORMAL:
                yield st1, sig
                continue
            for st2, s2 in self.ex(node.body, st1):
                if s2 is NORMAL or s2[0] == 'continue':
                    yield from self.unroll_for(node, items, i + 1, st2)
                elif s2[0] == 'break':
                    yield st2, NORMAL
                else:
                    yield st2, s2

    def ex_Break(self, node, st):
        yield st, ('break',)

    def ex_Continue(self, node, st):
        yield st, ('continue',)

    def ex_FunctionDef(self, node, st):
        raise EngineLimit('nested def')

    def ex_Import(self, node, st):
        raise EngineLimit('local import')

    ex_ImportFrom = ex_Import

    # ---- % formatting -----------------------------------------------------------------
    def fmt_percent(self, node, fmt, arg, st):
        from . import builtins as B
        yield from B.fmt_percent(self, node, fmt, arg, st)


class _Unbound:
    def __repr__(self):
        return 'UNBOUND'


UNBOUND = _Unbound()


class SRange(V):
    __slots__ = ('a', 'b', 's')

    def __init__(self, a, b, s):
        self.a, self.b, self.s = a, b, s

    def conc(self):
        xs = [SInt(x).conc() for x in (self.a, self.b, self.s)]
        if any(x is None for x in xs):
            return None, None, None
        return xs
