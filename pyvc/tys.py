"""Type descriptors used by contracts to create symbolic inputs."""
import re
try:
    import z3
except ImportError:
    z3 = None
from .vals import *


class T:
    pass


class _TInt(T):
    def __repr__(self): return 'Int'


class _TBool(T):
    def __repr__(self): return 'Bool'


class _TStr(T):
    def __repr__(self): return 'Str'


class _TNone(T):
    def __repr__(self): return 'None'


Int = _TInt()
Bool = _TBool()
Str = _TStr()
NoneT = _TNone()


class Opt(T):
    def __init__(self, t): self.t = t
    def __repr__(self): return 'Opt(%r)' % self.t


class Tup(T):
    def __init__(self, *ts): self.ts = ts
    def __repr__(self): return 'Tup%r' % (self.ts,)


class ListOf(T):
    """python list of symbolic length (z3 Seq)"""
    def __init__(self, t): self.t = t
    def __repr__(self): return 'ListOf(%r)' % self.t


class VecOf(T):
    """python list of a fixed (case-split) length n with symbolic entries"""
    def __init__(self, t, n): self.t, self.n = t, n
    def __repr__(self): return 'VecOf(%r,%d)' % (self.t, self.n)


class ListLit(T):
    """python list of fixed length with a type per entry"""
    def __init__(self, *ts): self.ts = ts
    def __repr__(self): return 'ListLit%r' % (self.ts,)


class Obj(T):
    def __init__(self, cls, **fields): self.cls, self.fields = cls, fields
    def __repr__(self): return 'Obj(%s)' % self.cls


class Opaque(T):
    """abstract immutable object; methods given by `methods` contracts table"""
    def __init__(self, name): self.name = name
    def __repr__(self): return 'Opaque(%s)' % self.name


class StrCat(T):
    """a string of unknown length given as  P ++ L  where L (k symbolic code points) is its last
    sep-separated piece: no sep in L, and P is empty or ends with sep.  Every string has exactly one
    such decomposition, so the cases k = 0..K are a complete split of 'last piece not longer than K'"""
    def __init__(self, k, sep='/'): self.k, self.sep = k, sep
    def __repr__(self): return 'StrCat(%d,%r)' % (self.k, self.sep)


class MutOpaque(T):
    """mutable abstract object: a heap cell holding the current abstract value"""
    def __init__(self, name): self.name = name
    def __repr__(self): return 'MutOpaque(%s)' % self.name


class StrN(T):
    """string of exactly n symbolic code points (vector string)"""
    def __init__(self, n): self.n = n
    def __repr__(self): return 'StrN(%d)' % self.n


_sorts = {}


def opaque_sort(name):
    k = ('opaque', name)
    if k not in _sorts:
        _sorts[k] = z3.DeclareSort('O_' + name)
    return _sorts[k]


def tuple_sort(ts):
    key = ('tup',) + tuple(repr(t) for t in ts)
    if key not in _sorts:
        nm = 'Tup_' + re.sub(r'\W+', '_', '_'.join(repr(t) for t in ts))
        _sorts[key] = z3.TupleSort(nm, [zsort(t) for t in ts])
    return _sorts[key]


def opt_sort(t):
    key = ('opt', repr(t))
    if key not in _sorts:
        nm = 'Opt_' + re.sub(r'\W+', '_', repr(t))
        d = z3.Datatype(nm)
        d.declare('none_' + nm)
        d.declare('some_' + nm, ('get_' + nm, zsort(t)))
        d = d.create()
        _sorts[key] = d
    return _sorts[key]


def zsort(t):
    if isinstance(t, Opt):
        return opt_sort(t.t)
    if t is NoneT:
        return opt_sort(Int)
    if t is Int:
        return z3.IntSort()
    if t is Bool:
        return z3.BoolSort()
    if t is Str or isinstance(t, (StrN, StrCat)):
        return z3.StringSort()
    if isinstance(t, Tup):
        return tuple_sort(t.ts)[0]
    if isinstance(t, ListOf):
        return z3.SeqSort(zsort(t.t))
    if isinstance(t, Opaque):
        return opaque_sort(t.name)
    raise TypeError('no z3 sort for %r' % (t,))


def to_z(v, t):
    """symbolic value -> z3 expression of sort zsort(t)"""
    if isinstance(v, SIte):
        if v.orig is not None and v.orig[1] == repr(t):
            return v.orig[0]
        return z3.If(v.c, to_z(v.a, t), to_z(v.b, t))
    if isinstance(t, Opt):
        d = opt_sort(t.t)
        if isinstance(v, SNone):
            return d.constructor(0)()
        return d.constructor(1)(to_z(v, t.t))
    if t is NoneT:
        return opt_sort(Int).constructor(0)()
    if t is Int:
        assert isinstance(v, (SInt, SBool)), v
        return v.e if isinstance(v, SInt) else z3.If(v.e, 1, 0)
    if t is Bool:
        assert isinstance(v, SBool), v
        return v.e
    if t is Str or isinstance(t, StrN):
        assert isinstance(v, SStr), v
        return v.z()
    if isinstance(t, Tup):
        assert isinstance(v, STuple) and len(v.items) == len(t.ts), (v, t)
        _, mk, _ = tuple_sort(t.ts)
        return mk(*[to_z(x, tt) for x, tt in zip(v.items, t.ts)])
    if isinstance(t, Opaque):
        assert isinstance(v, SOpaque)
        return v.e
    raise TypeError('to_z %r %r' % (v, t))


def from_z(e, t):
    if isinstance(t, Opt):
        d = opt_sort(t.t)
        es = z3.simplify(e)
        if z3.is_app(es) and es.decl().eq(d.constructor(0)):
            return NONE
        if z3.is_app(es) and es.decl().eq(d.constructor(1)):
            return from_z(es.arg(0), t.t)
        return SIte(d.recognizer(0)(e), NONE, from_z(d.accessor(1, 0)(e), t.t), orig=(e, repr(t)))
    if t is NoneT:
        return NONE
    if t is Int:
        return SInt(e)
    if t is Bool:
        return SBool(e)
    if t is Str or isinstance(t, StrN):
        return SStr(expr=e)
    if isinstance(t, Tup):
        _, _, accs = tuple_sort(t.ts)
        return STuple([from_z(a(e), tt) for a, tt in zip(accs, t.ts)])
    if isinstance(t, Opaque):
        return SOpaque(e, t.name)
    raise TypeError('from_z %r' % (t,))
