"""Models of the builtins, str/list methods, re and formatting used by the verified code."""
import ast
import re as pyre
import z3

from .vals import *
from .tys import *
from .strops import *
from . import rx as rxmod
from .interp import Raise, EngineLimit, NORMAL, SRange, UNBOUND, stmt_text

# deterministic over-approximation of int() on strings that are not plain [+-]?[0-9]+ :
# python also accepts blanks, '_' and unicode digits; two uninterpreted functions decide.
PYINT_OK = z3.Function('pyint_ok', z3.StringSort(), z3.BoolSort())
PYINT_VAL = z3.Function('pyint_val', z3.StringSort(), z3.IntSort())

_rx_cache = {}


def get_rx(pattern, flags):
    k = (pattern, flags)
    if k not in _rx_cache:
        _rx_cache[k] = rxmod.Rx(pattern, flags)
    return _rx_cache[k]


def digits_value(chars):
    v = z3.IntVal(0)
    for c in chars:
        v = v * 10 + (c - 48)
    return z3.simplify(v)


def is_digit(c):
    return z3.And(c >= 48, c <= 57)


def py_int_of_str(I, node, s, st):
    """yields (st, SInt | Raise)"""
    if s.is_vec():
        n = len(s.chars)
        if n == 0:
            yield st, I.exc('ValueError', node)
            return
        c0 = s.chars[0]
        plain = z3.And([is_digit(c) for c in s.chars])
        signed = z3.And([z3.Or(c0 == 45, c0 == 43)] + [is_digit(c) for c in s.chars[1:]]) if n > 1 else z3.BoolVal(False)
        for st1, b in I.split(st, plain):
            if b:
                yield st1, SInt(digits_value(s.chars), digits=list(s.chars))
                continue
            for st2, b2 in I.split(st1, signed):
                if b2:
                    v = digits_value(s.chars[1:])
                    yield st2, SInt(z3.If(c0 == 45, -v, v))
                    continue
                ok = PYINT_OK(s.z())
                for st3, b3 in I.split(st2, ok):
                    if b3:
                        I.trusted.add('int(): strings other than [+-]?[0-9]+ are accepted/rejected by an uninterpreted (deterministic) predicate')
                        yield st3, SInt(PYINT_VAL(s.z()))
                    else:
                        yield st3, I.exc('ValueError', node)
        return
    # native (unbounded) string: int() is the pair of uninterpreted functions (accepts?, value).
    # Deterministic, hence sound for relating two calls on the same text; nothing is assumed
    # about which texts are accepted.
    e = s.expr
    I.trusted.add('int() on strings of unknown length: uninterpreted deterministic (accepted?, value) pair, accepted only for texts of integer-literal shape')
    k = ('int-shape', e.get_id())
    if k not in I.axiom_keys:
        # instance axioms (used in the final queries only): int() accepts nothing but
        # [ws]*[+-]?digit(_?digit)*[ws]*  (non-ASCII characters over-approximated as possible digits/blanks),
        # and on plain ASCII digits it is the positional value
        I.axiom_keys.add(k)
        RS = z3.ReSort(z3.StringSort())
        nonascii = z3.Range(chr(128), chr(0x10FFFF))
        ws = z3.Union(z3.Range(chr(9), chr(13)), z3.Range(chr(28), chr(32)), nonascii)
        dg = z3.Union(z3.Range('0', '9'), nonascii)
        shape = z3.Concat(z3.Star(ws), z3.Option(z3.Union(z3.Re('+'), z3.Re('-'))), dg,
                          z3.Star(z3.Concat(z3.Option(z3.Re('_')), dg)), z3.Star(ws))
        I.axioms.append(z3.Implies(PYINT_OK(e), z3.InRe(e, shape)))
        I.axioms.append(z3.Implies(z3.InRe(e, z3.Plus(z3.Range('0', '9'))), z3.And(PYINT_OK(e), PYINT_VAL(e) == z3.StrToInt(e))))
    for st3, b3 in I.split(st, PYINT_OK(e)):
        if b3:
            yield st3, SInt(PYINT_VAL(e))
        else:
            yield st3, I.exc('ValueError', node)


_INT_AXIOM = []


def int_str_axiom():
    """int(str(n)) == n for n >= 0 (python fact; instantiated where str(n) occurs)"""
    if not _INT_AXIOM:
        n = z3.Int('ax!n')
        _INT_AXIOM.append(z3.ForAll([n], z3.Implies(n >= 0, z3.And(PYINT_OK(z3.IntToStr(n)), PYINT_VAL(z3.IntToStr(n)) == n)),
                                    patterns=[z3.IntToStr(n)]))
    return _INT_AXIOM[0]


def int_to_str(x, I=None):
    """SStr for str(int)"""
    xc = SInt(x).conc()
    if xc is not None:
        return SStr.const(str(xc))
    if I is not None and 'int-str' not in I.axiom_keys:
        I.axiom_keys.add('int-str')
        I.axioms.append(int_str_axiom())
        I.trusted.add('axiom: int(str(n)) == n for n >= 0')
    return SStr(expr=z3.If(x < 0, z3.Concat(z3.StringVal('-'), z3.IntToStr(-x)), z3.IntToStr(x)))


def int_to_str_padded(I, st, x, width):
    """yields (st, SStr): zero padded decimal of width `width` ('%02i', '{:02d}')"""
    xc = SInt(x).conc()
    if xc is not None:
        yield st, SStr.const('%0*d' % (width, xc))
        return
    inrange = z3.And(x >= 0, x < 10 ** width)
    for st1, b in I.split(st, inrange):
        if b:
            chars = []
            for k in range(width - 1, -1, -1):
                chars.append(z3.simplify(48 + (x / (10 ** k)) % 10))
            yield st1, SStr(chars=chars)
        else:
            # negative or wider than the pad width
            s = z3.If(x < 0,
                      z3.Concat(z3.StringVal('-'), _zpad_native(-x, width - 1)),
                      z3.IntToStr(x))
            yield st1, SStr(expr=s)


def _zpad_native(x, width):
    s = z3.IntToStr(x)
    out = s
    for k in range(width - 1, 0, -1):
        out = z3.If(x < 10 ** k, z3.Concat(z3.StringVal('0' * (width - k)), s), out) if k < width else out
    # build properly from smallest digit count upwards
    res = s
    for k in range(width - 1, 0, -1):
        res = z3.If(x < 10 ** k, z3.Concat(z3.StringVal('0' * (width - k)), s), res)
    return res


def to_str_value(I, node, v, st):
    """str(v) / '%s' % v / '{}'.format(v): yields (st, SStr|Raise)"""
    if isinstance(v, SIte):
        for st1, v1 in I.force(st, v):
            yield from to_str_value(I, node, v1, st1)
        return
    if isinstance(v, SStr):
        yield st, v
    elif isinstance(v, SInt) and v.digits and SInt(v.e).conc() is None:
        # str(int(digits)): the digits without leading zeros (L9: formatting inverts parsing)
        def strip0(cs, st):
            if len(cs) == 1:
                yield st, SStr(chars=cs)
                return
            for st1, b in I.split(st, cs[0] != 48):
                if b:
                    yield st1, SStr(chars=cs)
                else:
                    yield from strip0(cs[1:], st1)
        yield from strip0(list(v.digits), st)
    elif isinstance(v, SInt):
        yield st, int_to_str(v.e, I)
    elif isinstance(v, SBool):
        c = v.conc()
        if c is None:
            yield st, SStr(expr=z3.If(v.e, z3.StringVal('True'), z3.StringVal('False')))
        else:
            yield st, SStr.const(str(c))
    elif isinstance(v, SNone):
        yield st, SStr.const('None')
    elif isinstance(v, Ref) and isinstance(st.heap[v.addr], HObj):
        o = st.heap[v.addr]
        f = I.find_method(o.cls, '__str__') or I.find_method(o.cls, '__repr__')
        if f is not None:
            yield from I.call_function(f, [v], {}, st, node)
        else:
            yield st, SStr(expr=I.fresh('repr', z3.StringSort()))
    elif isinstance(v, SOpaque):
        from . import contracts_rt as C
        yield from C.opaque_str(I, node, v, st)
    elif isinstance(v, (STuple, Ref, SExc, SFunc, SClass, SExcClass, SMatch, SRegex)):
        # repr of containers: text is irrelevant to every contract; unconstrained string
        I.trusted.add('repr() of tuples/lists/exceptions inside messages is an unconstrained string')
        yield st, SStr(expr=I.fresh('repr', z3.StringSort()))
    else:
        raise EngineLimit('str of %r' % (v,))


_PCT = pyre.compile(r'%(?:\((\w+)\))?([0 -+#]*)(\d+)?(?:\.(\d+))?([sdirxf%])')


def fmt_percent(I, node, fmt, arg, st):
    f = fmt.conc()
    if f is None:
        raise EngineLimit('symbolic % format string')
    specs = list(_PCT.finditer(f))
    nargs = sum(1 for m in specs if m.group(5) != '%')
    if isinstance(arg, STuple):
        args = list(arg.items)
    else:
        args = [arg]
    if len(args) != nargs:
        yield st, I.exc('TypeError', node)
        return
    pieces = []
    pos = 0
    ai = 0
    for m in specs:
        pieces.append(('lit', f[pos:m.start()]))
        pos = m.end()
        if m.group(5) == '%':
            pieces.append(('lit', '%'))
            continue
        if m.group(1):
            raise EngineLimit('%(name)s format')
        pieces.append(('arg', args[ai], m.group(5), m.group(2) or '', int(m.group(3)) if m.group(3) else None))
        ai += 1
    pieces.append(('lit', f[pos:]))
    yield from _assemble(I, node, pieces, st)


def _assemble(I, node, pieces, st, acc=None):
    if acc is None:
        acc = SStr.const('')
    if not pieces:
        yield st, acc
        return
    p = pieces[0]
    if p[0] == 'lit':
        yield from _assemble(I, node, pieces[1:], st, s_concat(acc, SStr.const(p[1])))
        return
    _, v, conv, flags, width = p
    if isinstance(v, SIte):
        # lazily chosen value (an Optional field): format each alternative
        for st1, v1 in I.force(st, v):
            yield from _assemble(I, node, [('arg', v1, conv, flags, width)] + list(pieces[1:]), st1, acc)
        return
    if conv in 'dix':
        if not isinstance(v, (SInt, SBool)):
            yield st, I.exc('TypeError', node)
            return
        x = I.as_int(v)
        if width and '0' in flags:
            gen = int_to_str_padded(I, st, x, width)
        elif width:
            raise EngineLimit('space padded int format')
        elif isinstance(v, SInt) and v.digits:
            gen = to_str_value(I, node, v, st)
        else:
            gen = [(st, int_to_str(x, I))]
        for st1, s in gen:
            yield from _assemble(I, node, pieces[1:], st1, s_concat(acc, s))
        return
    if conv in 'sr':
        if width:
            raise EngineLimit('padded %s')
        for st1, s in to_str_value(I, node, v, st):
            if isinstance(s, Raise):
                yield st1, s
            else:
                yield from _assemble(I, node, pieces[1:], st1, s_concat(acc, s))
        return
    raise EngineLimit('format conversion %s' % conv)


_FMT = pyre.compile(r'\{\{|\}\}|\{([^{}:!]*)(?:!([rs]))?(?::([^{}]*))?\}')


def str_format(I, node, fmt, args, kwargs, st):
    f = fmt.conc()
    if f is None:
        raise EngineLimit('symbolic format string')
    pieces = []
    pos = 0
    auto = 0
    for m in _FMT.finditer(f):
        pieces.append(('lit', f[pos:m.start()]))
        pos = m.end()
        if m.group(0) == '{{':
            pieces.append(('lit', '{'))
            continue
        if m.group(0) == '}}':
            pieces.append(('lit', '}'))
            continue
        field = m.group(1)
        spec = m.group(3) or ''
        if field == '':
            if auto >= len(args):
                yield st, I.exc('IndexError', node)
                return
            v = args[auto]
            auto += 1
        elif field.isdigit():
            if int(field) >= len(args):
                yield st, I.exc('IndexError', node)
                return
            v = args[int(field)]
        else:
            if field not in kwargs:
                yield st, I.exc('KeyError', node)
                return
            v = kwargs[field]
        ms = pyre.fullmatch(r'(?:(.?)([<>^]))?(0)?(\d+)?([ds])?', spec)
        if not ms:
            raise EngineLimit('format spec %r' % spec)
        fill, align, zero, width, ty = ms.groups()
        width = int(width) if width else None
        if ty == 'd':
            if not isinstance(v, (SInt, SBool)):
                # '{:d}'.format(str) -> ValueError ; None -> TypeError
                yield st, I.exc('ValueError' if isinstance(v, SStr) else 'TypeError', node)
                return
            if width and zero:
                pieces.append(('arg', v, 'd', '0', width))
            elif width:
                raise EngineLimit('format spec %r' % spec)
            else:
                pieces.append(('arg', v, 'd', '', None))
        else:
            if align == '>' and fill == '0' and width and isinstance(v, (SInt, SBool)) and not ty:
                # '{idx:0>2}' with an int
                pieces.append(('arg', v, 'd', '0', width))
            elif width or align:
                raise EngineLimit('format spec %r' % spec)
            else:
                if isinstance(v, SNone) and spec:
                    yield st, I.exc('TypeError', node)
                    return
                pieces.append(('arg', v, 's', '', None))
    pieces.append(('lit', f[pos:]))
    yield from _assemble(I, node, pieces, st)


# -------------------------------------------------------------------------------------
def _group_subpatterns(R):
    import re._constants as sc
    out = {}

    def walk(items):
        for op, av in items:
            if op == sc.SUBPATTERN:
                if av[0] is not None:
                    out[av[0]] = list(av[3])
                walk(list(av[3]))
            elif op in (sc.MAX_REPEAT, sc.MIN_REPEAT):
                walk(list(av[2]))
            elif op == sc.BRANCH:
                for a in av[1]:
                    walk(list(a))
    walk(R.core)
    return out


def has_group_model(rgx):
    from .contract import GROUP_MODELS
    return rgx.name in GROUP_MODELS or rgx.pattern in GROUP_MODELS


def regex_search(I, node, rgx, val, st, anchored_match=False):
    if not isinstance(val, SStr):
        yield st, I.exc('TypeError', node)
        return
    R = get_rx(rgx.pattern, rgx.flags)
    anch = R.anch_start or anchored_match
    simple_class = None
    if len(R.core) == 1:
        op, av = R.core[0]
        import re._constants as sc
        if op in (sc.IN, sc.LITERAL, sc.NOT_LITERAL, sc.ANY):
            simple_class = R._class_ranges(op, av)
        elif op in (sc.MAX_REPEAT, sc.MIN_REPEAT) and av[0] == 1 and len(av[2]) == 1 and \
                av[2][0][0] in (sc.IN, sc.LITERAL, sc.NOT_LITERAL, sc.ANY):
            simple_class = R._class_ranges(*av[2][0])
    RS = z3.ReSort(z3.StringSort())
    if val.is_vec():
        n = len(val.chars)
        if not anch and not R.anch_end and simple_class is not None:
            rs, neg = simple_class
            E = z3.Or([R.class_pred(rs, neg, c) for c in val.chars]) if n else z3.BoolVal(False)
            for st1, b in I.split(st, E):
                if not b:
                    yield st1, NONE
                else:
                    g0 = SStr(expr=I.fresh('g0', z3.StringSort()))
                    st1.assume(z3.Length(g0.expr) >= 1)
                    yield st1, SMatch(g0)
            return
        # exact ordered-choice semantics of the backtracking engine on a vector string
        starts = [0] if anch else list(range(n + 1))
        paths = []
        for s0 in starts:
            for conds, end, groups in rxmod.backtrack_paths(R, val.chars, s0, R.anch_end):
                paths.append((s0, conds, end, groups))
        earlier = []
        rest = st
        for (s0, conds, end, groups) in paths:
            c = z3.And(conds) if len(conds) > 1 else (conds[0] if conds else z3.BoolVal(True))
            st_i = rest.fork()
            st_i.pc.append(c)
            if I.feasible(st_i.pc):
                gv = {}
                for gid in range(1, R.ngroups + 1):
                    if gid in groups:
                        a, b = groups[gid]
                        gv[gid] = SStr(chars=val.chars[a:b])
                    else:
                        gv[gid] = NONE
                for nm, gid in R.groupdict.items():
                    gv[nm] = gv[gid]
                yield st_i, SMatch(SStr(chars=val.chars[s0:end]), gv)
            rest.pc.append(z3.Not(c))
            if not I.feasible(rest.pc):
                return
        yield rest, NONE
        return
    # native string
    e = val.expr
    core = R.z3re()
    if R.ngroups and anch and getattr(I, 'vectorize_k', None):
        # (contract option vectorize_k) capture groups on a string of unknown length: complete split on its length; lengths 0..K are
        # handled exactly on code-point vectors, the residual (len > K) by an over-approximation
        # (any groups within their own sub-languages) - sound for exception freedom only
        K = I.vectorize_k
        for k in range(K + 1):
            st_k = st.fork()
            cs = [I.fresh('rx.c%d' % j, z3.IntSort()) for j in range(k)]
            vec = SStr(chars=cs)
            for c in cs:
                st_k.pc.append(z3.And(c >= 0, c <= MAXCP))
            st_k.pc.append(e == vec.z())
            if I.feasible(st_k.pc):
                yield from regex_search(I, node, rgx, vec, st_k, anchored_match)
        st_r = st
        st_r.pc.append(z3.Length(e) > K)
        if not I.feasible(st_r.pc):
            return
        I.trusted.add('regex %s on texts longer than %d characters: capture groups over-approximated (each group any string of its own sub-pattern, or None)' % (rgx.name or rgx.pattern, K))
        st_n = st_r.fork()
        yield st_n, NONE
        gv = {}
        subs = _group_subpatterns(R)
        for gid in range(1, R.ngroups + 1):
            g = I.fresh('grp%d' % gid, z3.StringSort())
            isn = I.fresh('grp%d.none' % gid, z3.BoolSort())
            if gid in subs:
                st_r.pc.append(z3.Or(isn, z3.InRe(g, R.z3re(subs[gid]))))
            gv[gid] = SIte(isn, NONE, SStr(expr=g))
        for nm, gid in R.groupdict.items():
            gv[nm] = gv[gid]
        yield st_r, SMatch(SStr(expr=I.fresh('g0', z3.StringSort())), gv)
        return
    if anch:
        if R.anch_end:
            lang = z3.Concat(core, z3.Option(z3.Re(z3.StringVal('\n'))))
        else:
            lang = z3.Concat(core, z3.Full(RS))
    else:
        if R.anch_end:
            lang = z3.Concat(z3.Full(RS), core, z3.Option(z3.Re(z3.StringVal('\n'))))
        else:
            lang = z3.Concat(z3.Full(RS), core, z3.Full(RS))
    E = z3.InRe(e, lang)
    for st1, b in I.split(st, E):
        if not b:
            yield st1, NONE
            continue
        g0 = I.fresh('g0', z3.StringSort())
        st1.assume(z3.InRe(g0, core))
        if anch:
            st1.assume(z3.PrefixOf(g0, e))
            I.trusted.add('R2: backtracking search of %r returns the whole string when the whole string matches' % rgx.pattern)
            st1.assume(z3.Implies(z3.InRe(e, core), g0 == e))
            if R.anch_end:
                st1.assume(z3.Or(g0 == e, e == z3.Concat(g0, z3.StringVal('\n'))))
        else:
            st1.assume(z3.Contains(e, g0))
        yield st1, SMatch(SStr(expr=g0))


def list_extend(I, node, lref, other, st):
    o = st.heap[lref.addr]
    items = I.concrete_iter(st, other)
    if isinstance(o, HList) and items is not None:
        o2 = st.mut(lref.addr)
        o2.items = o2.items + items
        yield st, NONE
        return
    if isinstance(o, HSeq):
        if items is not None:
            o2 = st.mut(lref.addr)
            for x in items:
                o2.e = z3.Concat(o2.e, z3.Unit(to_z(x, o.ety)))
            yield st, NONE
            return
        if isinstance(other, Ref) and isinstance(st.heap[other.addr], HSeq):
            o2 = st.mut(lref.addr)
            o2.e = z3.Concat(o2.e, st.heap[other.addr].e)
            yield st, NONE
            return
    raise EngineLimit('list.extend')


def call_builtin(I, node, f, args, kwargs, st):
    name = f.name
    if name.startswith('str.'):
        yield from str_method(I, node, f.selfv, name[4:], args, kwargs, st)
        return
    if name.startswith('list.'):
        yield from list_method(I, node, f.selfv, name[5:], args, kwargs, st)
        return
    if name.startswith('dict.'):
        yield from dict_method(I, node, f.selfv, name[5:], args, kwargs, st)
        return
    if name == 're.compile':
        p = args[0].conc() if isinstance(args[0], SStr) else None
        fl = 0
        if len(args) > 1:
            fl = args[1].conc()
        if p is None or fl is None:
            raise EngineLimit('re.compile of non-constant')
        yield st, SRegex(p, fl)
        return
    if name in ('regex.search', 'regex.match'):
        yield from regex_search(I, node, f.selfv, args[0], st, anchored_match=(name == 'regex.match'))
        return
    if name == 'match.group':
        m = f.selfv
        if not args:
            yield st, m.g0
            return
        k = args[0]
        kc = k.conc() if isinstance(k, (SInt, SStr)) else None
        if kc == 0:
            yield st, m.g0
            return
        if kc in m.groups:
            yield st, m.groups[kc]
            return
        if kc is None:
            raise EngineLimit('symbolic group index')
        raise EngineLimit('capture group %r of a pattern without a functional group model' % (kc,))
        return
    if name == 'len':
        v = args[0]
        if isinstance(v, SStr):
            yield st, s_len(v)
        elif isinstance(v, STuple):
            yield st, SInt(len(v.items))
        elif isinstance(v, Ref):
            o = st.heap[v.addr]
            if isinstance(o, HList):
                yield st, SInt(len(o.items))
            elif isinstance(o, HDict):
                yield st, SInt(len(o.items))
            elif isinstance(o, HSeq):
                yield st, SInt(z3.Length(o.e))
            elif type(o).__name__ == 'HPieces':
                from . import pieces
                yield st, SInt(pieces.length(I, st, o))
            elif isinstance(o, HSplit):
                from . import contracts_rt as C
                yield from C.split_len(I, o, st)
            elif isinstance(o, HObj) and o.cls.startswith('opaque:'):
                yield from I.call_opaque(node, SFunc('opaque', o.cls[7:] + '.__len__', selfv=v), [], {}, st)
            elif isinstance(o, HObj):
                fm = I.find_method(o.cls, '__len__')
                if fm is None:
                    yield st, I.exc('TypeError', node)
                else:
                    yield from I.call_function(fm, [v], {}, st, node)
            else:
                raise EngineLimit('len')
        elif isinstance(v, SOpaque):
            yield from I.call_opaque(node, SFunc('opaque', v.tname + '.__len__', selfv=v), [], {}, st)
        elif isinstance(v, (SNone, SInt, SBool)):
            yield st, I.exc('TypeError', node)
        else:
            raise EngineLimit('len of %r' % (v,))
        return
    if name == 'int':
        v = args[0]
        if isinstance(v, SInt):
            yield st, v
        elif isinstance(v, SBool):
            yield st, SInt(I.as_int(v))
        elif isinstance(v, SStr):
            yield from py_int_of_str(I, node, v, st)
        elif isinstance(v, SNone):
            yield st, I.exc('TypeError', node)
        else:
            raise EngineLimit('int of %r' % (v,))
        return
    if name in ('str', 'repr'):
        if not args:
            yield st, SStr.const('')
            return
        yield from to_str_value(I, node, args[0], st)
        return
    if name == 'bool':
        t = I.truth(st, args[0])
        yield st, SBool(t)
        return
    if name == 'isinstance':
        yield st, SBool(do_isinstance(I, st, args[0], args[1]))
        return
    if name == 'range':
        xs = [I.as_int(a) for a in args]
        if len(xs) == 1:
            yield st, SRange(z3.IntVal(0), xs[0], z3.IntVal(1))
        elif len(xs) == 2:
            yield st, SRange(xs[0], xs[1], z3.IntVal(1))
        else:
            yield st, SRange(xs[0], xs[1], xs[2])
        return
    if name in ('min', 'max'):
        if len(args) == 1:
            items = I.concrete_iter(st, args[0])
            if items is None:
                raise EngineLimit('min/max of symbolic iterable')
        else:
            items = args
        if not items:
            yield st, I.exc('ValueError', node)
            return
        acc = I.as_int(items[0])
        for x in items[1:]:
            y = I.as_int(x)
            acc = z3.If(y < acc, y, acc) if name == 'min' else z3.If(y > acc, y, acc)
        yield st, SInt(acc)
        return
    if name == 'abs':
        x = I.as_int(args[0])
        yield st, SInt(z3.If(x < 0, -x, x))
        return
    if name == 'chr':
        x = I.as_int(args[0])
        yield st, SStr(chars=[x])
        return
    if name == 'ord':
        s = args[0]
        if isinstance(s, SStr) and s.is_vec() and len(s.chars) == 1:
            yield st, SInt(s.chars[0])
            return
        raise EngineLimit('ord')
    if name in ('list', 'tuple'):
        if not args:
            yield st, (I.alloc(st, HList([])) if name == 'list' else STuple([]))
            return
        items = I.concrete_iter(st, args[0])
        if items is None and isinstance(args[0], Ref) and isinstance(st.heap[args[0].addr], HSplit):
            from . import contracts_rt as C
            for st1, parts in C.split_force(I, st.heap[args[0].addr], st):
                yield st1, (I.alloc(st1, HList(parts)) if name == 'list' else STuple(parts))
            return
        if items is None:
            if isinstance(args[0], Ref) and isinstance(st.heap[args[0].addr], HSeq) and name == 'list':
                o = st.heap[args[0].addr]
                yield st, I.alloc(st, HSeq(o.e, o.ety))
                return
            raise EngineLimit('list() of symbolic iterable')
        yield st, (I.alloc(st, HList(items)) if name == 'list' else STuple(items))
        return
    if name == 'type':
        raise EngineLimit('type()')
    if name == 'print':
        yield st, NONE
        return
    if name == 'hasattr':
        raise EngineLimit('hasattr')
    if name.startswith('logging.') or name.startswith('logger.'):
        yield st, NONE
        return
    from . import contracts_rt as C
    yield from C.external_call(I, node, name, args, kwargs, st)


def do_isinstance(I, st, v, cls):
    def one(c):
        if isinstance(c, SFunc) and c.kind == 'builtin':
            if c.name == 'str':
                return isinstance(v, SStr)
            if c.name == 'int':
                return isinstance(v, (SInt, SBool))
            if c.name == 'bool':
                return isinstance(v, SBool)
            if c.name == 'list':
                return isinstance(v, Ref) and isinstance(st.heap[v.addr], (HList, HSeq))
            if c.name == 'tuple':
                return isinstance(v, STuple)
            if c.name == 'dict':
                return isinstance(v, Ref) and isinstance(st.heap[v.addr], HDict)
        if isinstance(c, SClass):
            if isinstance(v, Ref) and isinstance(st.heap[v.addr], HObj):
                q = st.heap[v.addr].cls
                seen = set()
                todo = [q]
                while todo:
                    x = todo.pop()
                    if x == c.qual:
                        return True
                    if x in seen:
                        continue
                    seen.add(x)
                    todo += I.class_bases(x)
                return False
            if isinstance(v, SOpaque):
                return v.tname == c.qual or v.tname == c.qual.rsplit('.', 1)[-1]
            return False
        if isinstance(c, SExcClass):
            return isinstance(v, SExc) and I.exc_isa(v.cls, c.name)
        raise EngineLimit('isinstance against %r' % (c,))
    if isinstance(cls, STuple):
        return any(one(c) for c in cls.items)
    return one(cls)


def str_method(I, node, s, meth, args, kwargs, st):
    if meth == 'format':
        yield from str_format(I, node, s, args, kwargs, st)
        return
    if meth == 'join':
        if isinstance(args[0], Ref) and type(st.heap[args[0].addr]).__name__ == 'HPieces':
            from . import pieces
            yield st, pieces.join(I, st, s, st.heap[args[0].addr])
            return
        items = I.concrete_iter(st, args[0])
        if items is None:
            from . import contracts_rt as C
            yield from C.symbolic_join(I, node, s, args[0], st)
            return
        acc = SStr.const('')
        for k, x in enumerate(items):
            if not isinstance(x, SStr):
                yield st, I.exc('TypeError', node)
                return
            if k:
                acc = s_concat(acc, s)
            acc = s_concat(acc, x)
        yield st, acc
        return
    if meth == 'startswith' or meth == 'endswith':
        p = args[0]
        if not isinstance(p, SStr):
            raise EngineLimit('startswith arg')
        if s.is_vec() and p.is_vec():
            n, m = len(s.chars), len(p.chars)
            if m > n:
                yield st, SBool(False)
            else:
                seg = s.chars[:m] if meth == 'startswith' else s.chars[n - m:]
                yield st, SBool(I._and([a == b for a, b in zip(seg, p.chars)]) if m else True)
        else:
            yield st, SBool(z3.PrefixOf(p.z(), s.z()) if meth == 'startswith' else z3.SuffixOf(p.z(), s.z()))
        return
    if meth in ('lstrip', 'rstrip', 'strip'):
        if args:
            cs = args[0].conc() if isinstance(args[0], SStr) else None
            if cs is None:
                raise EngineLimit('strip chars')
            codes = [ord(c) for c in cs]
        else:
            # python whitespace (ASCII part + the unicode blanks are over-approximated for vectors)
            codes = [9, 10, 11, 12, 13, 28, 29, 30, 31, 32, 0x85, 0xA0, 0x1680] + list(range(0x2000, 0x200B)) + \
                    [0x2028, 0x2029, 0x202F, 0x205F, 0x3000]
        if s.is_vec():
            def instrip(c):
                return z3.Or([c == k for k in codes])

            def go_l(chars, st):
                if not chars:
                    yield st, chars
                    return
                for st1, b in I.split(st, instrip(chars[0])):
                    if b:
                        yield from go_l(chars[1:], st1)
                    else:
                        yield st1, chars

            def go_r(chars, st):
                if not chars:
                    yield st, chars
                    return
                for st1, b in I.split(st, instrip(chars[-1])):
                    if b:
                        yield from go_r(chars[:-1], st1)
                    else:
                        yield st1, chars
            if meth == 'lstrip':
                for st1, cs2 in go_l(list(s.chars), st):
                    yield st1, SStr(chars=cs2)
            elif meth == 'rstrip':
                for st1, cs2 in go_r(list(s.chars), st):
                    yield st1, SStr(chars=cs2)
            else:
                for st1, cs2 in go_l(list(s.chars), st):
                    for st2, cs3 in go_r(cs2, st1):
                        yield st2, SStr(chars=cs3)
            return
        if not args:
            # whitespace strip of a string of unknown length: an uninterpreted (deterministic) function
            U = z3.Function('str.' + meth + '_ws', z3.StringSort(), z3.StringSort())
            r = U(s.expr)
            st.assume(z3.Length(r) <= z3.Length(s.expr))
            I.trusted.add('str.%s() on strings of unknown length: uninterpreted deterministic function, result not longer than the argument' % meth)
            yield st, SStr(expr=r)
            return
        # native: r with s == pre ++ r (lstrip), pre all in set, r empty or first not in set
        RS = z3.ReSort(z3.StringSort())
        setre = z3.Union(*[z3.Re(z3.StringVal(chr(k))) for k in codes]) if len(codes) > 1 else z3.Re(z3.StringVal(chr(codes[0])))
        e = s.expr
        # the result is a FUNCTION of the argument (same term for the code and for a spec that strips the same text)
        r = z3.Function('str.%s[%s]' % (meth, ','.join(str(k) for k in codes)), z3.StringSort(), z3.StringSort())(e)
        pre = I.fresh('strippre', z3.StringSort())
        notset = z3.Diff(z3.AllChar(RS), setre)
        if meth == 'lstrip':
            st.assume(e == z3.Concat(pre, r))
            st.assume(z3.InRe(pre, z3.Star(setre)))
            st.assume(z3.InRe(r, z3.Option(z3.Concat(notset, z3.Full(RS)))))
        elif meth == 'rstrip':
            st.assume(e == z3.Concat(r, pre))
            st.assume(z3.InRe(pre, z3.Star(setre)))
            st.assume(z3.InRe(r, z3.Option(z3.Concat(z3.Full(RS), notset))))
        else:
            post = I.fresh('strippost', z3.StringSort())
            st.assume(e == z3.Concat(pre, r, post))
            st.assume(z3.InRe(pre, z3.Star(setre)))
            st.assume(z3.InRe(post, z3.Star(setre)))
            st.assume(z3.InRe(r, z3.Union(z3.Re(z3.StringVal('')), notset, z3.Concat(notset, z3.Full(RS), notset))))
        yield st, SStr(expr=r)
        return
    if meth == 'find':
        p = args[0]
        if len(args) > 1:
            raise EngineLimit('find with start')
        if s.is_vec() and p.is_vec() and len(p.chars) == 1:
            res = z3.IntVal(-1)
            for k in range(len(s.chars) - 1, -1, -1):
                res = z3.If(s.chars[k] == p.chars[0], k, res)
            yield st, SInt(z3.simplify(res))
        else:
            yield st, SInt(z3.IndexOf(s.z(), p.z(), 0))
        return
    if meth == 'split':
        from . import contracts_rt as C
        yield from C.str_split(I, node, s, args, kwargs, st)
        return
    if meth == 'replace':
        a, b = args[0], args[1]
        if s.is_vec() and a.is_vec() and len(a.chars) == 1 and b.is_vec():
            # single-character pattern on a vector string: fork per occurrence
            def go(k, acc, st):
                if k == len(s.chars):
                    yield st, SStr(chars=acc)
                    return
                for st1, bb in I.split(st, s.chars[k] == a.chars[0]):
                    if bb:
                        yield from go(k + 1, acc + b.chars, st1)
                    else:
                        yield from go(k + 1, acc + [s.chars[k]], st1)
            yield from go(0, [], st)
            return
        from . import contracts_rt as C
        yield from C.str_replace(I, node, s, a, b, st)
        return
    if meth in ('isdigit', 'isdecimal', 'isnumeric'):
        rs = _unicode_ranges(meth)
        I.trusted.add('str.%s(): exact table of code points taken from this interpreter (unicodedata of python3-vt)' % meth)
        if s.is_vec():
            if not s.chars:
                yield st, SBool(False)
                return
            fs = [z3.Or([c == lo if lo == hi else z3.And(c >= lo, c <= hi) for lo, hi in rs]) for c in s.chars]
            yield st, SBool(z3.simplify(z3.And(fs)))
        else:
            us = [z3.Range(chr(lo), chr(hi)) if lo != hi else z3.Re(z3.StringVal(chr(lo))) for lo, hi in rs]
            yield st, SBool(z3.InRe(s.expr, z3.Plus(z3.Union(*us))))
        return
    if meth in ('upper', 'lower', 'isalpha', 'isalnum', 'encode', 'decode', 'strip'):
        raise EngineLimit('str.%s' % meth)
    if meth == '__hash__':
        yield st, SInt(I.fresh('hash', z3.IntSort()))
        return
    raise EngineLimit('str.%s' % meth)


_uni_cache = {}


def _unicode_ranges(meth):
    if meth not in _uni_cache:
        rs = []
        start = None
        for cp in range(0x110000):
            ok = getattr(chr(cp), meth)()
            if ok and start is None:
                start = cp
            elif not ok and start is not None:
                rs.append((start, cp - 1))
                start = None
        if start is not None:
            rs.append((start, 0x10FFFF))
        _uni_cache[meth] = rs
    return _uni_cache[meth]


def list_method(I, node, lref, meth, args, kwargs, st):
    o = st.heap[lref.addr]
    if meth == 'append':
        if isinstance(o, HList):
            o2 = st.mut(lref.addr)
            o2.items.append(args[0])
        else:
            if not I.type_ok(args[0], o.ety):
                raise EngineLimit('append of %r to list of %r' % (args[0], o.ety))
            o2 = st.mut(lref.addr)
            o2.e = z3.Concat(o.e, z3.Unit(to_z(args[0], o.ety)))
        yield st, NONE
        return
    if meth == 'extend':
        yield from list_extend(I, node, lref, args[0], st)
        return
    if meth == 'pop':
        if isinstance(o, HList):
            if args:
                ic = SInt(I.as_int(args[0])).conc()
                if ic is None:
                    raise EngineLimit('pop symbolic index')
            else:
                ic = -1
            if not (-len(o.items) <= ic < len(o.items)):
                yield st, I.exc('IndexError', node)
                return
            o2 = st.mut(lref.addr)
            v = o2.items.pop(ic)
            yield st, v
            return
        if args:
            raise EngineLimit('pop(i) on symbolic list')
        n = z3.Length(o.e)
        for st1, b in I.split(st, n > 0):
            if not b:
                yield st1, I.exc('IndexError', node)
                continue
            v = from_z(o.e[n - 1], o.ety)
            I.snoc_lemma(st1, o.e)
            o2 = st1.mut(lref.addr)
            o2.e = z3.Extract(o.e, 0, n - 1)
            yield st1, v
        return
    if meth == 'insert':
        if isinstance(o, HList):
            ic = SInt(I.as_int(args[0])).conc()
            if ic is None:
                raise EngineLimit('insert symbolic index')
            o2 = st.mut(lref.addr)
            o2.items.insert(ic, args[1])
            yield st, NONE
            return
        n = z3.Length(o.e)
        i = I.as_int(args[0])
        j = z3.If(i < 0, z3.If(n + i < 0, 0, n + i), z3.If(i > n, n, i))
        o2 = st.mut(lref.addr)
        o2.e = z3.Concat(z3.Extract(o.e, 0, j), z3.Unit(to_z(args[1], o.ety)), z3.Extract(o.e, j, n - j))
        yield st, NONE
        return
    if meth == 'index':
        raise EngineLimit('list.index')
    if meth == '__len__':
        yield st, SInt(len(o.items) if isinstance(o, HList) else z3.Length(o.e))
        return
    raise EngineLimit('list.%s' % meth)


def dict_method(I, node, dref, meth, args, kwargs, st):
    o = st.heap[dref.addr]
    if meth == 'items':
        yield st, STuple([STuple([k, v]) for k, v in o.items])
        return
    if meth == 'keys':
        yield st, STuple([k for k, v in o.items])
        return
    if meth == 'values':
        yield st, STuple([v for k, v in o.items])
        return
    if meth == 'get':
        default = args[1] if len(args) > 1 else NONE
        rest = st
        for k, v in o.items:
            e = I.values_eq(rest, args[0], k)
            for st1, b in I.split(rest.fork(), e):
                if b:
                    yield st1, v
            rest.assume(I._not(e) if not isinstance(e, bool) else (not e))
            if not I.feasible(rest.pc):
                return
        yield rest, default
        return
    raise EngineLimit('dict.%s' % meth)
