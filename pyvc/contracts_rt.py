"""Run-time side of contracts: symbolic inputs, calls by contract, abstract (opaque)
objects, lazily split strings, contract-expression evaluation."""
import ast
import z3

from .vals import *
from .tys import *
from .strops import *
from .interp import Raise, EngineLimit, NORMAL, St, SRange, UNBOUND, stmt_text
from .contract import REGISTRY, OPAQUE_TYPES, GROUP_MODELS, Const
from .tys import MutOpaque

_expr_cache = {}


def parse_expr(s):
    if s not in _expr_cache:
        _expr_cache[s] = ast.parse(s.strip(), mode='eval').body
    return _expr_cache[s]


# --------------------------------------------------------------------------------------
def fresh_value(I, st, t, name, lazy=False):
    """yields (st, value) - forks only for a top-level Opt (nested / lazy: a lazy choice value)"""
    if lazy and isinstance(t, Opt):
        c = I.fresh(name + '.isnone', z3.BoolSort())
        for st1, v in fresh_value(I, st, t.t, name, lazy=True):
            yield st1, SIte(c, NONE, v)
        return
    if t is Int:
        yield st, SInt(I.fresh(name, z3.IntSort()))
    elif t is Bool:
        yield st, SBool(I.fresh(name, z3.BoolSort()))
    elif t is Str:
        yield st, SStr(expr=I.fresh(name, z3.StringSort()))
    elif isinstance(t, StrN):
        cs = [I.fresh('%s.c%d' % (name, k), z3.IntSort()) for k in range(t.n)]
        for c in cs:
            st.assume(z3.And(c >= 0, c <= MAXCP))
        yield st, SStr(chars=cs)
    elif isinstance(t, StrCat):
        P = I.fresh(name + '.head', z3.StringSort())
        cs = [I.fresh('%s.t%d' % (name, k), z3.IntSort()) for k in range(t.k)]
        sepc = ord(t.sep)
        for c in cs:
            st.assume(z3.And(c >= 0, c <= MAXCP, c != sepc))
        st.assume(z3.Or(P == z3.StringVal(''), z3.SuffixOf(z3.StringVal(t.sep), P)))
        tail = SStr(chars=cs)
        v = SStr(expr=z3.Concat(P, tail.z()) if cs else P)
        v.parts = (P, cs, sepc)
        yield st, v
    elif t is NoneT:
        yield st, NONE
    elif isinstance(t, Opt):
        st2 = st.fork()
        yield st2, NONE
        yield from fresh_value(I, st, t.t, name)
    elif isinstance(t, Tup):
        def go(i, acc, st):
            if i == len(t.ts):
                yield st, STuple(acc)
                return
            for st1, v in fresh_value(I, st, t.ts[i], '%s.%d' % (name, i), lazy=True):
                yield from go(i + 1, acc + [v], st1)
        yield from go(0, [], st)
    elif isinstance(t, ListOf):
        e = I.fresh(name, z3.SeqSort(zsort(t.t)))
        yield st, I.alloc(st, HSeq(e, t.t))
    elif isinstance(t, VecOf):
        def go(i, acc, st):
            if i == t.n:
                yield st, I.alloc(st, HList(acc))
                return
            for st1, v in fresh_value(I, st, t.t, '%s.%d' % (name, i)):
                yield from go(i + 1, acc + [v], st1)
        yield from go(0, [], st)
    elif isinstance(t, ListLit):
        def go(i, acc, st):
            if i == len(t.ts):
                yield st, I.alloc(st, HList(acc))
                return
            for st1, v in fresh_value(I, st, t.ts[i], '%s.%d' % (name, i)):
                yield from go(i + 1, acc + [v], st1)
        yield from go(0, [], st)
    elif isinstance(t, Obj):
        names = list(t.fields)

        def go(i, acc, st):
            if i == len(names):
                yield st, I.alloc(st, HObj(t.cls, acc))
                return
            for st1, v in fresh_value(I, st, t.fields[names[i]], '%s.%s' % (name, names[i]), lazy=True):
                d = dict(acc)
                d[names[i]] = v
                yield from go(i + 1, d, st1)
        yield from go(0, {}, st)
    elif isinstance(t, MutOpaque):
        v = SOpaque(I.fresh(name, opaque_sort(t.name)), t.name)
        yield st, I.alloc(st, HObj('opaque:' + t.name, {'v': v}))
    elif isinstance(t, Opaque):
        yield st, SOpaque(I.fresh(name, opaque_sort(t.name)), t.name)
    elif isinstance(t, Const):
        yield st, py_to_val(I, st, t.py)
    else:
        raise EngineLimit('fresh value of %r' % (t,))


def py_to_val(I, st, x):
    if x is None:
        return NONE
    if isinstance(x, bool):
        return SBool(x)
    if isinstance(x, int):
        return SInt(x)
    if isinstance(x, str):
        return SStr.const(x)
    if isinstance(x, tuple):
        return STuple([py_to_val(I, st, y) for y in x])
    if isinstance(x, list):
        return I.alloc(st, HList([py_to_val(I, st, y) for y in x]))
    raise EngineLimit('constant %r' % (x,))


# --------------------------------------------------------------------------------------
def contract_frame(I, c_scope, bindings):
    m = I.module(c_scope) if c_scope else None
    env = dict(bindings)
    env['__module__'] = m
    env['__func__'] = '<contract>'
    env['__locals__'] = set()
    return env


def eval_forks(I, expr, bindings, st, scope):
    """evaluate a contract expression; yields (st_i, value) with st_i forks of st (st itself untouched)"""
    node = parse_expr(expr) if isinstance(expr, str) else expr
    s0 = st.fork()
    s0.frames.append(contract_frame(I, scope, bindings))
    for st1, v in I.ev(node, s0):
        st1.frames.pop()
        yield st1, v


def truth_of(I, st, v, expr):
    if isinstance(v, Raise):
        # a raising path of a contract expression is tolerated only if it is provably unreachable; the decision gets the large
        # (deterministic) budget, because "undecided" here gives the whole function up
        I._strong_prune = getattr(I, '_strong_prune', 0) + 1
        try:
            reachable = I.feasible(st.pc)
        finally:
            I._strong_prune -= 1
        if not reachable:
            return None
        raise EngineLimit('contract expression raises %s: %s' % (v.exc.cls, expr))
    t = I.truth(st, v)
    return t if not isinstance(t, bool) else z3.BoolVal(t)


def assume_expr(I, expr, bindings, st, scope):
    """add the truth of `expr` to st.pc (merging the forks of its evaluation)"""
    n0 = len(st.pc)
    alts = []
    for st1, v in eval_forks(I, expr, bindings, st, scope):
        t = truth_of(I, st1, v, expr)
        if t is None:
            continue
        alts.append(st1.pc[n0:] + [t])
    if not alts:
        st.assume(z3.BoolVal(False))
    elif len(alts) == 1:
        for f in alts[0]:
            st.assume(f)
    else:
        st.assume(z3.Or([z3.And(a) for a in alts]))


def prove_expr(I, expr, bindings, st, scope, kind, node=None, name=None, note=''):
    for st1, v in eval_forks(I, expr, bindings, st, scope):
        t = truth_of(I, st1, v, expr)
        if t is None:
            continue
        I.oblige(st1, kind, t, node=node, name=name, note=note or (expr if isinstance(expr, str) else ''))


def snapshot_value(I, old_st, st, v, memo=None):
    """deep copy of a value living in old_st.heap into st.heap"""
    if memo is None:
        memo = {}
    if isinstance(v, Ref):
        if v.addr in memo:
            return memo[v.addr]
        o = old_st.heap[v.addr]
        r = I.alloc(st, None)
        memo[v.addr] = r
        if isinstance(o, HList):
            st.heap[r.addr] = HList([snapshot_value(I, old_st, st, x, memo) for x in o.items])
        elif isinstance(o, HSeq):
            st.heap[r.addr] = HSeq(o.e, o.ety)
        elif isinstance(o, HDict):
            st.heap[r.addr] = HDict([(k, snapshot_value(I, old_st, st, x, memo)) for k, x in o.items])
        elif isinstance(o, HObj):
            st.heap[r.addr] = HObj(o.cls, {k: snapshot_value(I, old_st, st, x, memo) for k, x in o.fields.items()})
        elif isinstance(o, HSplit) or type(o).__name__ == 'HPieces':
            st.heap[r.addr] = o.copy()
        else:
            raise EngineLimit('snapshot of %r' % (o,))
        return r
    if isinstance(v, STuple):
        return STuple([snapshot_value(I, old_st, st, x, memo) for x in v.items])
    return v


# --------------------------------------------------------------------------------------
def bind_by_signature(I, qual, args, kwargs, st, node):
    fn = I.find_function(qual)
    if fn is None:
        raise EngineLimit('no source for %s' % qual)
    m, fnode, cls = fn
    env = I.bind_args(fnode, args, kwargs, st, node)
    if isinstance(env, Raise):
        return env, m
    for k, v in list(env.items()):
        if isinstance(v, tuple) and v and v[0] == '__default__':
            sd = St()
            sd.frames = [{'__module__': m}]
            sd.heap = st.heap
            outs = list(I.ev(v[1], sd))
            if len(outs) != 1 or isinstance(outs[0][1], Raise):
                raise EngineLimit('default of %s' % k)
            env[k] = outs[0][1]
            st.heap = outs[0][0].heap
    return env, m


def call_by_contract(I, node, qual, args, kwargs, st, ctor=None):
    cc = I.cur_contract
    c = REGISTRY.get(getattr(cc, 'alias', {}).get(qual, qual)) if cc is not None else REGISTRY.get(qual)
    if c is None:
        raise EngineLimit('no contract for %s' % qual)
    I.used_contracts.add(qual)
    if ctor is not None:
        # constructor by contract: allocate the object with fresh fields of self_type
        if c.self_type is None:
            raise EngineLimit('constructor contract without self_type: %s' % qual)
        ref = I.alloc(st, HObj(ctor.qual, {}))
        args = [ref] + list(args)
    env, m = bind_by_signature(I, qual, args, kwargs, st, node)
    if isinstance(env, Raise):
        yield st, env
        return
    scope = getattr(c, 'scope', None)
    # append-only sinks (options['append_only'] = ['errh.log']): the callee's contract is stated for an EMPTY sink; the callee only
    # appends to it and never reads it (frame fact of the sink model, checked syntactically by frames rule sink-read), so at a call
    # site the contract is applied to an empty sink and what it appended is concatenated to what the caller's sink already held
    rel = []
    for path in (c.options or {}).get('append_only', ()):
        pname, fld = path.split('.')
        r0 = env.get(pname)
        if not isinstance(r0, Ref) or fld not in st.heap[r0.addr].fields:
            raise EngineLimit('append_only %s: no such sink at the call site' % path)
        cur = st.heap[r0.addr].fields[fld]
        co = st.heap[cur.addr]
        if isinstance(co, HList):
            ety = c.options.get('append_only_type')
            old_e = I.list_to_seq(st, co, ety)
        elif isinstance(co, HSeq):
            ety, old_e = co.ety, co.e
        else:
            raise EngineLimit('append_only %s: sink is not a list' % path)
        rel.append((r0.addr, fld, old_e, ety))
        st.mut(r0.addr).fields[fld] = I.alloc(st, HList([]))
    # 1. preconditions are obligations of the caller
    for r in c.requires:
        prove_expr(I, r, env, st, scope, 'pre', node=node,
                   name='%s#pre:%s@%s' % (I.cur_func, qual.split('.', 1)[-1], stmt_text(node)), note=r)
    for r in c.requires:
        assume_expr(I, r, env, st, scope)
    old_st = st.fork()
    # 2. exceptional outcomes
    for exc_name, cond in c.raises.items():
        st_e = st.fork()
        if cond is not True:
            assume_expr(I, cond, env, st_e, scope)
        if I.feasible(st_e.pc):
            for (addr, fld, old_e, ety) in rel:
                st_e.mut(addr).fields[fld] = I.alloc(st_e, HSeq(z3.Concat(old_e, I.fresh('appended', z3.SeqSort(zsort(ety)))), ety))
            havoc_modifies(I, c, env, st_e)
            for e in c.exc_ensures.get(exc_name, ()):
                b = dict(env)
                assume_expr(I, e, b, st_e, scope)
            yield st_e, Raise(SExc(exc_name, (), site='call ' + qual))
    for exc_name, cond in c.raises.items():
        if cond is not True:
            assume_expr(I, 'not (%s)' % cond, env, st, scope)
    if not I.feasible(st.pc):
        return
    # 3. normal outcome: havoc frame, fresh result, assume postconditions
    havoc_modifies(I, c, env, st)
    rt = c.returns if c.returns is not None else NoneT
    if ctor is not None and isinstance(c.returns, (Opaque, MutOpaque)):
        # constructor summarised as "returns an abstract object"
        for st1, res in fresh_value(I, st, c.returns, 'new_' + ctor.qual.rsplit('.', 1)[-1]):
            b = dict(env)
            b['result'] = res
            for e in c.ensures:
                assume_expr(I, e, b, st1, scope)
            if isinstance(c.returns, MutOpaque) and c.returns.name == 'Segment':
                from . import segmodel
                segmodel.ctor_facts(I, st1, res, env)
            if I.feasible(st1.pc):
                yield st1, res
        return
    if ctor is not None:
        # fresh fields
        self_ref = env[list(env)[0]]
        for st1, obj in fresh_value(I, st, c.self_type, 'new_' + ctor.qual.rsplit('.', 1)[-1]):
            st1.heap[self_ref.addr] = st1.heap[obj.addr]
            b = dict(env)
            b['result'] = NONE
            st1.ghost = dict(st1.ghost)
            st1.ghost['__old__'] = old_st
            for e in c.ensures:
                assume_expr(I, e, b, st1, scope)
            st1.ghost.pop('__old__', None)
            if I.feasible(st1.pc):
                yield st1, self_ref
        return
    call_ens = c.options.get('call_ensures') if c.options else None
    for st1, res in fresh_value(I, st, rt, 'ret_' + qual.rsplit('.', 1)[-1]):
        b = dict(env)
        b['result'] = res
        deltas = []
        for (addr, fld, old_e, ety) in rel:
            d = I.fresh('appended', z3.SeqSort(zsort(ety)))
            deltas.append(d)
            st1.mut(addr).fields[fld] = I.alloc(st1, HSeq(d, ety))
        st1.ghost = dict(st1.ghost)
        st1.ghost['__old__'] = old_st
        for k, e in enumerate(c.ensures):
            if call_ens is not None and k not in call_ens:
                continue        # a clause that is not proved of the callee (listed known finding) is never assumed of it
            assume_expr(I, e, b, st1, scope)
        st1.ghost.pop('__old__', None)
        for (addr, fld, old_e, ety), d in zip(rel, deltas):
            st1.mut(addr).fields[fld] = I.alloc(st1, HSeq(z3.Concat(old_e, d), ety))
        if I.feasible(st1.pc):
            yield st1, res


def havoc_modifies(I, c, env, st):
    """frame: the named fields of self (dotted paths reach into owned sub-objects) and the
    abstract value of every parameter listed in `mutates` become arbitrary"""
    names = list(env)
    for pname in getattr(c, 'mutates', ()) or ():
        r = env.get(pname)
        if isinstance(r, Ref) and isinstance(st.heap[r.addr], HObj) and st.heap[r.addr].cls.startswith('opaque:'):
            tname = st.heap[r.addr].cls[7:]
            o = st.mut(r.addr)
            o.fields['v'] = SOpaque(I.fresh('mut_' + pname, opaque_sort(tname)), tname)
        else:
            raise EngineLimit('mutates %s: not a mutable abstract object' % pname)
    if not c.modifies:
        return
    self_ref = env[names[0]]
    if not isinstance(self_ref, Ref):
        raise EngineLimit('modifies on non-object')
    for fld in c.modifies:
        path = fld.split('.')
        t = c.self_type
        ref = self_ref
        for k, part in enumerate(path):
            if t is None or not isinstance(t, Obj) or part not in t.fields:
                raise EngineLimit('modifies field %s without declared type' % fld)
            t = t.fields[part]
            if k < len(path) - 1:
                ref = st.heap[ref.addr].fields[part]
                if not isinstance(ref, Ref):
                    raise EngineLimit('modifies path %s' % fld)
        outs = list(fresh_value(I, st, t, 'hv_' + path[-1], lazy=True))
        if len(outs) != 1:
            raise EngineLimit('havoc of optional field')
        o = st.mut(ref.addr)
        o.fields[path[-1]] = outs[0][1]


# --------------------------------------------------------------------------------------
_opq_funcs = {}


def opaque_fn(tname, meth, argtypes, rt, suffix=''):
    k = (tname, meth, suffix)
    if k not in _opq_funcs:
        sorts = [opaque_sort(tname)] + [zsort(a) for a in argtypes]
        if suffix == 'isnone':
            rs = z3.BoolSort()
        else:
            rs = zsort(rt)
        _opq_funcs[k] = z3.Function('%s.%s%s' % (tname, meth, ('.' + suffix) if suffix else ''), *(sorts + [rs]))
    return _opq_funcs[k]


def call_opaque(I, node, f, args, kwargs, st):
    tname, meth = f.name.rsplit('.', 1)
    if tname == 'Segment':
        from . import segmodel
        def go(i, aa, st):
            if i == len(aa):
                yield from segmodel.seg_call(I, node, f.selfv, meth, aa, kwargs, st)
                return
            for st1, v in I.force(st, aa[i]):
                yield from go(i + 1, aa[:i] + [v] + aa[i + 1:], st1)
        yield from go(0, list(args), st)
        return
    spec = OPAQUE_TYPES.get(tname)
    if spec is None or meth not in spec['methods']:
        raise EngineLimit('abstract method %s' % f.name)
    ms = spec['methods'][meth]
    I.trusted.add('abstract %s.%s: pure function of the receiver and its arguments (%s)' % (tname, meth, spec.get('note', '')))
    argtypes = ms.get('args', [])
    if kwargs or len(args) != len(argtypes):
        yield st, I.exc('TypeError', node)
        return
    zargs = []
    for a, t in zip(args, argtypes):
        if not I.type_ok(a, t):
            raise EngineLimit('abstract call %s with %r' % (f.name, a))
        zargs.append(to_z(a, t))
    rt = ms['returns']
    selfe = f.selfv.e

    def mk(t):
        if isinstance(t, Opt):
            raise EngineLimit('nested Opt')
        fn = opaque_fn(tname, meth, argtypes, t)
        return from_z(fn(selfe, *zargs), t)
    outs = []
    if isinstance(rt, Opt):
        isn = opaque_fn(tname, meth, argtypes, rt.t, 'isnone')(selfe, *zargs)
        if not ms.get('ensures'):
            yield st, SIte(isn, NONE, mk(rt.t))
            return
        for st1, b in I.split(st, isn):
            outs.append((st1, NONE if b else mk(rt.t)))
    elif rt is NoneT:
        outs.append((st, NONE))
    else:
        outs.append((st, mk(rt)))
    for st1, res in outs:
        b = {'self': f.selfv, 'result': res}
        for k, a in enumerate(args):
            b['a%d' % k] = a
        for e in ms.get('ensures', ()):
            assume_expr(I, e, b, st1, ms.get('scope'))
        if I.feasible(st1.pc):
            yield st1, res


def opaque_str(I, node, v, st):
    spec = OPAQUE_TYPES.get(v.tname)
    if spec and '__repr__' in spec['methods']:
        yield from call_opaque(I, node, SFunc('opaque', v.tname + '.__repr__', selfv=v), [], {}, st)
    else:
        raise EngineLimit('str() of abstract %s' % v.tname)


# --------------------------------------------------------------------------------------
def on_yield(I, ynode, v, st):
    ys = st.ghost.get('__yielded__')
    if ys is None:
        raise EngineLimit('yield outside a generator contract')
    st.ghost = dict(st.ghost)
    st.ghost['__yielded__'] = ys + [v] if isinstance(ys, list) else ys
    st.ghost['__ycount__'] = st.ghost.get('__ycount__', 0) + 1
    c = REGISTRY.get(I.cur_func_qual)
    if c is not None and getattr(c, 'yield_ensures', None):
        env = {k: x for k, x in st.env.items() if not k.startswith('__')}
        env.update(st.ghost.get('__loop_ghosts__') or {})      # head-of-iteration snapshots of the enclosing cut loop
        env['yielded_value'] = v
        for k, e in enumerate(c.yield_ensures):
            prove_expr(I, e, env, st, c.scope, 'yield', node=ynode, name='%s#yield[%d]' % (I.cur_func, k), note=e)
    hook = st.ghost.get('__on_yield__')
    if hook is not None:
        yield from hook(I, ynode, v, st)
        return
    yield st, NORMAL


# --------------------------------------------------------------------------------------
def str_split(I, node, s, args, kwargs, st):
    if kwargs:
        raise EngineLimit('split kwargs')
    if not args:
        raise EngineLimit('split() on whitespace')
    sep = args[0]
    if not isinstance(sep, SStr):
        yield st, I.exc('TypeError', node)
        return
    if not (sep.is_vec() and len(sep.chars) == 1):
        sc = sep.conc()
        if sc is None and not sep.is_vec():
            # symbolic separator of unknown length: require exactly one char
            raise EngineLimit('split with symbolic separator of unknown length')
        if sep.is_vec() and len(sep.chars) == 0:
            yield st, I.exc('ValueError', node)
            return
        if sep.is_vec() and len(sep.chars) != 1:
            raise EngineLimit('multi-character separator')
    maxsplit = None
    if len(args) > 1:
        maxsplit = SInt(I.as_int(args[1])).conc()
        if maxsplit is None:
            raise EngineLimit('symbolic maxsplit')
    if not s.is_vec() and maxsplit is None:
        from .pieces import HPieces
        hp = HPieces(s.expr, sep.z(), z3.BoolVal(False))
        sc_ = SInt(sep.chars[0]).conc()
        if s.parts is not None and sc_ == s.parts[2]:
            hp.known = (s.parts[0], list(s.parts[1]))
        yield st, I.alloc(st, hp)
        return
    if s.is_vec() and maxsplit is None and getattr(I, 'abstract_vec_split', False):
        from .pieces import HPieces
        hp = HPieces(s.z(), sep.z(), z3.BoolVal(False))
        hp.vchars = list(s.chars)
        hp.sepc = sep.chars[0]
        yield st, I.alloc(st, hp)
        return
    yield st, I.alloc(st, HSplit(s, sep.chars[0], maxsplit))


def _sep_positions(I, hs, st, k, exact):
    """vector string: yield (st, positions list) for the first k separators;
    exact=True additionally requires that there are no further separators"""
    chars = hs.s.chars
    n = len(chars)

    def go(start, found, st):
        if len(found) == k:
            if exact:
                rest = [chars[i] != hs.sep for i in range(start, n)]
                if rest:
                    st.assume(z3.And(rest))
                    if not I.feasible(st.pc):
                        return
            yield st, found
            return
        for p in range(start, n):
            cond = z3.And([chars[i] != hs.sep for i in range(start, p)] + [chars[p] == hs.sep])
            st1 = st.fork()
            st1.assume(z3.simplify(cond))
            if I.feasible(st1.pc):
                yield from go(p + 1, found + [p], st1)
    yield from go(0, [], st)


def split_count_vec(hs):
    return z3.Sum([z3.If(c == hs.sep, 1, 0) for c in hs.s.chars]) if hs.s.chars else z3.IntVal(0)


def split_len(I, hs, st):
    """yields (st, SInt) : len(s.split(sep[,maxsplit]))"""
    if hs.s.is_vec():
        cnt = split_count_vec(hs)
        if hs.maxsplit is not None:
            cnt = z3.If(cnt > hs.maxsplit, hs.maxsplit, cnt)
        yield st, SInt(z3.simplify(cnt + 1))
        return
    if hs.maxsplit == 1:
        sepz = z3.StrFromCode(hs.sep)
        yield st, SInt(z3.If(z3.Contains(hs.s.expr, sepz), 2, 1))
        return
    raise EngineLimit('len of split of a native string')


def split_unpack(I, node, hs, n, st):
    """(a, b, ...) = s.split(sep[, maxsplit]) with exactly n targets"""
    if hs.s.is_vec():
        chars = hs.s.chars
        cnt = split_count_vec(hs)
        if hs.maxsplit is not None and hs.maxsplit < n - 1:
            yield st, I.exc('ValueError', node)
            return
        capped = hs.maxsplit is not None and hs.maxsplit == n - 1
        ok = (cnt >= n - 1) if capped else (cnt == n - 1)
        for st1, b in I.split(st, z3.simplify(ok)):
            if not b:
                yield st1, I.exc('ValueError', node)
                continue
            for st2, pos in _sep_positions(I, hs, st1, n - 1, exact=not capped):
                parts = []
                start = 0
                for p in pos:
                    parts.append(SStr(chars=chars[start:p]))
                    start = p + 1
                parts.append(SStr(chars=chars[start:]))
                yield st2, parts
        return
    # native string
    e = hs.s.expr
    RS = z3.ReSort(z3.StringSort())
    sepz = z3.StrFromCode(hs.sep) if not z3.is_int_value(hs.sep) else z3.StringVal(chr(hs.sep.as_long()))
    if hs.maxsplit == 1 and n == 2:
        # (head, tail) = s.split(sep, 1): defined through the first occurrence of the separator
        idx = z3.IndexOf(e, sepz, 0)
        for st1, b in I.split(st, z3.Contains(e, sepz)):
            if not b:
                yield st1, I.exc('ValueError', node)
                continue
            yield st1, [SStr(expr=z3.SubString(e, 0, idx)), SStr(expr=z3.SubString(e, idx + 1, z3.Length(e) - idx - 1))]
        return
    if not z3.is_int_value(hs.sep):
        raise EngineLimit('symbolic separator on native string')
    nosep = z3.Star(z3.Diff(z3.AllChar(RS), z3.Re(sepz)))
    if hs.maxsplit is not None and hs.maxsplit < n - 1:
        yield st, I.exc('ValueError', node)
        return
    capped = hs.maxsplit is not None and hs.maxsplit == n - 1
    pieces = []
    for k in range(n - 1):
        pieces += [nosep, z3.Re(sepz)]
    pieces.append(z3.Full(RS) if capped else nosep)
    lang = z3.Concat(*pieces) if len(pieces) > 1 else pieces[0]
    for st1, b in I.split(st, z3.InRe(e, lang)):
        if not b:
            yield st1, I.exc('ValueError', node)
            continue
        ps = [I.fresh('part', z3.StringSort()) for _ in range(n)]
        cat = []
        for k, p in enumerate(ps):
            if k:
                cat.append(sepz)
            cat.append(p)
        st1.assume(e == (z3.Concat(*cat) if len(cat) > 1 else cat[0]))
        for k, p in enumerate(ps):
            if k < n - 1 or not capped:
                st1.assume(z3.Not(z3.Contains(p, sepz)))
        yield st1, [SStr(expr=p) for p in ps]


def split_force(I, hs, st, limit=4096):
    """enumerate the whole split of a vector string: yields (st, [SStr])"""
    if not hs.s.is_vec():
        raise EngineLimit('iteration over split of a native string')
    chars = hs.s.chars
    n = len(chars)
    count = [0]

    def go(i, cur, parts, nsplit, st):
        count[0] += 1
        if count[0] > limit:
            raise EngineLimit('split enumeration too large')
        if i == n:
            yield st, parts + [SStr(chars=cur)]
            return
        if hs.maxsplit is not None and nsplit >= hs.maxsplit:
            yield st, parts + [SStr(chars=cur + chars[i:])]
            return
        for st1, b in I.split(st, chars[i] == hs.sep):
            if b:
                yield from go(i + 1, [], parts + [SStr(chars=cur)], nsplit + 1, st1)
            else:
                yield from go(i + 1, cur + [chars[i]], parts, nsplit, st1)
    yield from go(0, [], [], 0, st)


def symbolic_join(I, node, sep, it, st):
    raise EngineLimit('join over a symbolic list')


CNT = z3.Function('str.count1', z3.StringSort(), z3.StringSort(), z3.IntSort())
REMOVE = z3.Function('str.remove1', z3.StringSort(), z3.StringSort(), z3.StringSort())


def count_axioms(I):
    if 'str-count' in I.axiom_keys:
        return
    I.axiom_keys.add('str-count')
    s, c, d = z3.String('ax!s'), z3.String('ax!c'), z3.String('ax!d')
    I.axioms.append(z3.ForAll([s, c], z3.And(CNT(s, c) >= 0, CNT(s, c) <= z3.Length(s)), patterns=[CNT(s, c)]))
    I.axioms.append(z3.ForAll([s, c], z3.Length(REMOVE(s, c)) == z3.Length(s) - CNT(s, c), patterns=[REMOVE(s, c)]))
    I.axioms.append(z3.ForAll([s, c, d], z3.Implies(d != c, CNT(REMOVE(s, c), d) == CNT(s, d)), patterns=[CNT(REMOVE(s, c), d)]))
    I.trusted.add('python facts about removing one character c from a string: len(s.replace(c,"")) == len(s) - s.count(c); other characters keep their counts')


def str_replace(I, node, s, a, b, st):
    ac, bc = a.conc(), b.conc()
    if ac is None or bc is None:
        raise EngineLimit('replace with symbolic pattern')
    if bc == '' and len(ac) == 1:
        count_axioms(I)
        yield st, SStr(expr=REMOVE(s.z(), z3.StringVal(ac)))
        return
    I.trusted.add('str.replace on native strings is z3 ReplaceAll')
    yield st, SStr(expr=z3.SeqReplaceAll(s.z(), z3.StringVal(ac), z3.StringVal(bc)) if hasattr(z3, 'SeqReplaceAll') else _replace_all(s.z(), ac, bc))


def _replace_all(e, a, b):
    return z3.Function('str.replace_all', z3.StringSort(), z3.StringSort(), z3.StringSort(), z3.StringSort())(e, z3.StringVal(a), z3.StringVal(b))


def symbolic_listcomp(I, node, it, st):
    raise EngineLimit('list comprehension over a symbolic iterable')


def regex_groups_search(I, node, rgx, R, val, st):
    """patterns with capture groups: functional model registered by a contract file"""
    model = GROUP_MODELS.get(rgx.name) or GROUP_MODELS.get(rgx.pattern)
    if model is None:
        raise EngineLimit('regex with capture groups and no functional model: %s' % rgx.pattern)
    I.trusted.add('R3: capture groups of %s given by functional model %s (bounded differential against CPython re)' % (rgx.name or rgx.pattern, model))
    modname, fname = model.rsplit('.', 1)
    m = I.module(modname)
    f = SFunc('spec', model, node=m.funcs[fname], module=m)
    for st1, r in I.call_function(f, [val], {}, st, node):
        if isinstance(r, Raise):
            raise EngineLimit('group model raised')
        if isinstance(r, SNone):
            yield st1, NONE
            continue
        # r = (g0, {name: value}) encoded as tuple (g0, names tuple, values tuple)
        g0, names, values = r.items
        groups = {}
        for nm, v in zip(names.items, values.items):
            groups[nm.conc()] = v
            if nm.conc() in R.groupdict:
                groups[R.groupdict[nm.conc()]] = v
        yield st1, SMatch(g0, groups)




def external_call(I, node, name, args, kwargs, st):
    if name.startswith('ext:'):
        cls, meth, selfref = name[4:].rsplit('.', 1) + [None]
        raise EngineLimit('external method dispatch')
    ext = EXTERNALS.get(name)
    if ext is None:
        raise EngineLimit('external call %s' % name)
    yield from ext(I, node, args, kwargs, st)


EXTERNALS = {}
EXT_METHODS = {}     # (class name, method) -> handler(I, node, selfref, args, kwargs, st)


def ext_textout_write(I, node, selfref, args, kwargs, st):
    """model of a text output stream used by X12Writer: every write must be the formatted text of
    one segment followed by the line end; the ghost log records (segment view, delimiters, eol)"""
    if len(args) != 1 or not isinstance(args[0], SStr):
        yield st, I.exc('TypeError', node)
        return
    tag = getattr(args[0], 'tag', None)
    if tag is None or tag.get('suffix') is None:
        raise EngineLimit('write of a text that is not <segment>.format(...) + eol')
    o = st.heap[selfref.addr]
    log = o.fields['log']
    lo = st.heap[log.addr]
    entry = STuple([tag['seg']] + list(tag['terms']) + [tag['suffix']])
    lo2 = st.mut(log.addr)
    lo2.e = z3.Concat(lo.e, z3.Unit(to_z(entry, lo.ety)))
    I.trusted.add('text output stream: write(text) appends; the ghost log keeps the segment whose format() produced the text')
    yield st, SInt(I.fresh('nwritten', z3.IntSort()))


EXT_METHODS[('ext.TextOut', 'write')] = ext_textout_write


# ---- externals used by map_if validation (C15) -------------------------------------------
_ext_ufs = {}


def _uf(name, *sorts):
    if name not in _ext_ufs:
        _ext_ufs[name] = z3.Function(name, *sorts)
    return _ext_ufs[name]


def ext_errh_noop(I, node, selfref, args, kwargs, st):
    yield st, NONE


def ext_errh_ele_error(I, node, selfref, args, kwargs, st):
    """error handler sink: the ghost log keeps (code, offending value) of every element error"""
    names = ['err_cde', 'err_str', 'bad_value', 'refdes']
    vals = list(args) + [kwargs.get(n, NONE) for n in names[len(args):]]
    code, val = vals[0], vals[2]
    if not isinstance(code, SStr):
        raise EngineLimit('ele_error code %r' % (code,))
    o = st.heap[selfref.addr]
    log = o.fields['log']
    lo = st.heap[log.addr]
    entry = STuple([code, val])
    if isinstance(lo, HList):
        ety = Tup(Str, Opt(Str))
        st.heap[log.addr] = HSeq(z3.Concat(I.list_to_seq(st, lo, ety), z3.Unit(to_z(entry, ety))), ety)
        yield st, NONE
        return
    lo2 = st.mut(log.addr)
    lo2.e = z3.Concat(lo.e, z3.Unit(to_z(entry, lo.ety)))
    yield st, NONE


def ext_dataele_get(I, node, selfref, args, kwargs, st):
    num = args[0]
    if not isinstance(num, SStr):
        raise EngineLimit('data element number %r' % (num,))
    S, IS = z3.StringSort(), z3.IntSort()
    nz = num.z()
    d = HDict([(SStr.const('data_type'), SStr(expr=_uf('dataele.type', S, S)(nz))),
               (SStr.const('min_len'), SInt(_uf('dataele.min', S, IS)(nz))),
               (SStr.const('max_len'), SInt(_uf('dataele.max', S, IS)(nz))),
               (SStr.const('name'), SStr(expr=_uf('dataele.name', S, S)(nz)))])
    I.trusted.add('DataElements.get_by_elem_num: a fixed table (deterministic functions of the element number); every referenced number is defined (ground C16)')
    yield st, I.alloc(st, d)


def ext_codes_isvalid(I, node, selfref, args, kwargs, st):
    key, code = args[0], args[1]
    S = z3.StringSort()
    I.trusted.add('ExternalCodes.isValid: a fixed relation (deterministic function of code set id and value); referenced sets are defined or excluded (ground C16)')
    yield st, SBool(_uf('extcodes.valid', S, S, z3.BoolSort())(key.z(), code.z()))


def ext_params_get(I, node, selfref, args, kwargs, st):
    k = args[0].conc()
    o = st.heap[selfref.addr]
    if k not in o.fields:
        raise EngineLimit('param %r' % k)
    yield st, o.fields[k]


EXT_METHODS[('ext.ErrH', 'add_ele')] = ext_errh_noop
EXT_METHODS[('ext.ErrH', 'ele_error')] = ext_errh_ele_error
EXT_METHODS[('ext.DataElements', 'get_by_elem_num')] = ext_dataele_get
EXT_METHODS[('ext.ExtCodes', 'isValid')] = ext_codes_isvalid
EXT_METHODS[('ext.Params', 'get')] = ext_params_get


def ext_parent_is_composite(I, node, selfref, args, kwargs, st):
    yield st, st.heap[selfref.addr].fields['composite']


EXT_METHODS[('ext.ParentNode', 'is_composite')] = ext_parent_is_composite


def ext_src_get_cur_line(I, node, selfref, args, kwargs, st):
    yield st, st.heap[selfref.addr].fields['cur_line']


EXT_METHODS[('ext.Src', 'get_cur_line')] = ext_src_get_cur_line


def ext_stream_read(I, node, selfref, args, kwargs, st):
    """text stream with a ghost field `rest` (everything not yet delivered): read(n) delivers a prefix of it of at most
    n characters, and the empty string exactly at the end of input (io.TextIOBase.read) - any chunking"""
    if len(args) != 1 or kwargs:
        raise EngineLimit('read() without a size')
    n = I.as_int(args[0])
    o = st.mut(selfref.addr)
    rest = o.fields['rest'].z()
    d = I.fresh('chunk', z3.StringSort())
    rest2 = I.fresh('rest', z3.StringSort())
    st.assume(rest == z3.Concat(d, rest2))
    st.assume(z3.Length(d) <= n)
    st.assume((z3.Length(d) == 0) == (z3.Length(rest) == 0))
    o.fields['rest'] = SStr(expr=rest2)
    I.trusted.add('text stream: read(n) returns a prefix of the undelivered text, at most n characters, empty exactly at end of input')
    yield st, SStr(expr=d)


EXT_METHODS[('ext.Stream', 'read')] = ext_stream_read


def ext_textraw_write(I, node, selfref, args, kwargs, st):
    """plain text sink: the ghost log keeps every written string"""
    if len(args) != 1 or not isinstance(args[0], SStr):
        yield st, I.exc('TypeError', node)
        return
    o = st.heap[selfref.addr]
    log = o.fields['log']
    lo = st.heap[log.addr]
    lo2 = st.mut(log.addr)
    lo2.e = z3.Concat(lo.e, z3.Unit(args[0].z()))
    yield st, SInt(I.fresh('nwritten', z3.IntSort()))


EXT_METHODS[('ext.TextOutRaw', 'write')] = ext_textraw_write
