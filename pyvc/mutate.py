"""Mutation self-test: apply one realistic breaking edit at a time to a scratch copy of the
repository (outside /repo and /verif, removed afterwards), run the property's check with
--repo, and require a refuted, named obligation.  Harmless edits must keep verifying."""
import json
import os
import shutil
import subprocess
import sys
import tempfile
import time

VERIF = os.path.dirname(os.path.dirname(os.path.abspath(__file__)))


def run_mutants(pid, mutants, repo='/repo', tier='quick', keep=False, jobs=2):
    """mutants: list of dict(name, file, old, new, expect='caught'|'verified', count=1)"""
    from concurrent.futures import ThreadPoolExecutor
    with ThreadPoolExecutor(jobs) as ex:
        parts = list(ex.map(lambda m: _run_one(pid, m, repo, tier), mutants))
    return [r for p in parts for r in p]


def _run_one(pid, m, repo, tier):
    results = []
    for m in [m]:
        tmp = tempfile.mkdtemp(prefix='pyvc_mut_')
        try:
            dst = os.path.join(tmp, 'repo')
            shutil.copytree(repo, dst, ignore=shutil.ignore_patterns('.git', '__pycache__', '*.pyc', 'test'))
            if m.get('revert'):
                # un-fix: reverse-apply a `fix:` commit of the repository (the defect it repaired must be reported again)
                diff = subprocess.run(['git', '-C', repo, 'show', m['revert'], '--', 'pyx12'], capture_output=True, text=True).stdout
                pr = subprocess.run(['patch', '-R', '-p1', '--no-backup-if-mismatch'], input=diff, cwd=dst, capture_output=True, text=True)
                if pr.returncode != 0:
                    results.append({'name': m['name'], 'status': 'not-applicable', 'detail': 'reverse patch does not apply: ' + pr.stdout[-200:]})
                    continue
            else:
                path = os.path.join(dst, m['file'])
                src = open(path).read()
                if src.count(m['old']) < 1:
                    results.append({'name': m['name'], 'status': 'not-applicable', 'detail': 'pattern not found'})
                    continue
                src2 = src.replace(m['old'], m['new'], m.get('count', 1))
                open(path, 'w').write(src2)
            t0 = time.time()
            env = dict(os.environ)
            env['PYVC_EVIDENCE_DIR'] = os.path.join(tmp, 'evidence')
            env['PYVC_REPLAY_DIR'] = os.path.join(tmp, 'replay')
            try:
                p = subprocess.run([os.path.join(VERIF, 'check'), pid, '--tier', tier, '--repo', dst, '--procs', '12'],
                                   capture_output=True, text=True, env=env, timeout=int(os.environ.get('PYVC_MUT_TIMEOUT', '2400')))
            except subprocess.TimeoutExpired:
                subprocess.run(['pkill', '-f', dst], capture_output=True)
                results.append({'name': m['name'], 'expect': m.get('expect', 'caught'), 'status': 'undecided(timeout)', 'exit': None,
                                'wall_s': round(time.time() - t0, 1), 'lines': []})
                print(json.dumps(results[-1]), flush=True)
                continue
            lines = [l for l in p.stdout.split('\n') if l.startswith(('VIOLATION', 'UNDECIDED', 'CHECKER', 'OK', '  obligation'))]
            exp = m.get('expect', 'caught')
            if exp == 'caught':
                status = 'caught' if p.returncode == 1 else ('survived' if p.returncode == 0 else 'undecided(%d)' % p.returncode)
            else:
                status = 'verified' if p.returncode == 0 else 'false-alarm(%d)' % p.returncode
            results.append({'name': m['name'], 'expect': exp, 'status': status, 'exit': p.returncode,
                            'wall_s': round(time.time() - t0, 1), 'lines': lines[:6]})
            print(json.dumps(results[-1]), flush=True)
        finally:
            shutil.rmtree(tmp, ignore_errors=True)
    return results


if __name__ == '__main__':
    pid = sys.argv[1]
    sys.path.insert(0, VERIF)
    import importlib
    sel = sys.argv[2:]
    if pid == 'FIXES':
        # every `fix:` commit reverted, checked with the property it was recorded for
        mod = importlib.import_module('mutants.FIXES')
        out = []
        for prop in sorted(set(m['property'] for m in mod.MUTANTS)):
            ms = [m for m in mod.MUTANTS if m['property'] == prop and (not sel or m['name'] in sel)]
            if ms:
                out += run_mutants(prop, ms)
    else:
        mod = importlib.import_module('mutants.' + pid)
        ms = [m for m in mod.MUTANTS if not sel or m['name'] in sel]
        out = run_mutants(pid, ms)
    bad = [r for r in out if r['status'] not in ('caught', 'verified', 'not-applicable')]
    print('mutants=%d ok=%d bad=%d' % (len(out), len(out) - len(bad), len(bad)))
