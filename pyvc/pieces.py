"""s.split(sep) of a string of UNKNOWN length, kept abstract: HPieces(text, sep, empty) denotes the
list [] when `empty`, else text.split(sep).  Supported: len, truthiness, [-1], del [-1], sep.join,
==.  The needed facts about split are instance axioms over uninterpreted functions
HEAD/LAST (deterministic):   text == HEAD ++ LAST,  sep not in LAST,  HEAD == '' or HEAD ends with sep,
count(text, sep) == 0 <=> HEAD == '';  join(sep, split(text, sep)) == text  and injectivity of split
are the Lean lemmas L1/L2 (List.intercalate_splitOn / splitOn_intercalate)."""
import z3
from .vals import *
from .interp import Raise, EngineLimit

S = z3.StringSort()
HEAD = z3.Function('split.head', S, S, S)
LAST = z3.Function('split.last', S, S, S)


class HPieces:
    __slots__ = ('text', 'sep', 'empty', 'known', 'vchars', 'sepc')

    def __init__(self, text, sep, empty, known=None):
        self.text, self.sep, self.empty = text, sep, empty   # z3 String, z3 String (1 char), z3 Bool
        self.known = known     # (head z3 String, last-piece code points) when the decomposition is given
        self.vchars = None     # code points when the text is a vector string (then all operations are exact)
        self.sepc = None

    def copy(self):
        c = HPieces(self.text, self.sep, self.empty, self.known)
        c.vchars, c.sepc = self.vchars, self.sepc
        return c


def axioms(I, st, p):
    from .contracts_rt import CNT, count_axioms
    count_axioms(I)
    t, s = p.text, p.sep
    h, l = HEAD(t, s), LAST(t, s)
    key = ('pieces', t.get_id(), s.get_id())
    if key in I.axiom_keys:
        return h, l
    I.axiom_keys.add(key)
    I.axioms.append(t == z3.Concat(h, l))
    I.axioms.append(z3.Not(z3.Contains(l, s)))
    I.axioms.append(z3.Or(h == z3.StringVal(''), z3.SuffixOf(s, h)))
    I.axioms.append((CNT(t, s) == 0) == (h == z3.StringVal('')))
    I.axioms.append(z3.Contains(t, s) == (CNT(t, s) > 0))
    I.trusted.add('str.split(sep) of a string of unknown length kept abstract (last piece / head text as deterministic functions with their defining facts); join-after-split identity and injectivity of split: Lean lemmas L1/L2')
    return h, l


def inst(I, st, p):
    """the axiom instances are also put on the path condition (they are quantifier free)"""
    t, s = p.text, p.sep
    if p.known is not None:
        h = p.known[0]
        l = SStr(chars=p.known[1]).z()
        return h, l
    h, l = axioms(I, st, p)
    from .contracts_rt import CNT
    for f in (t == z3.Concat(h, l), z3.Not(z3.Contains(l, s)), z3.Or(h == z3.StringVal(''), z3.SuffixOf(s, h)),
              (CNT(t, s) == 0) == (h == z3.StringVal('')), CNT(t, s) >= 0):
        fid = f.get_id()
        if not any(g.get_id() == fid for g in st.pc):
            st.pc.append(f)
    return h, l


def length(I, st, p):
    """len(pieces): 0 when empty, else some n >= 1 (the exact count is not tracked: the verified code
    only compares the length with 0); n == 1 exactly when the text holds no separator"""
    n = I.fresh('npieces', z3.IntSort())
    st.pc.append(n >= 1)
    if p.known is not None:
        st.pc.append((n == 1) == (p.known[0] == z3.StringVal('')))
    return z3.If(p.empty, 0, n)


def vec_last_split(I, st, p):
    """vector text: fork on the position of the last separator -> (st, head_chars_without_sep | None, last_chars)"""
    cs = p.vchars
    n = len(cs)
    for q in range(n - 1, -1, -1):
        cond = z3.And([cs[q] == p.sepc] + [cs[j] != p.sepc for j in range(q + 1, n)])
        st_q = st.fork()
        st_q.pc.append(z3.simplify(cond))
        if I.feasible(st_q.pc):
            yield st_q, cs[:q], cs[q + 1:]
    st.pc.append(z3.simplify(z3.And([c != p.sepc for c in cs])) if cs else z3.BoolVal(True))
    if I.feasible(st.pc):
        yield st, None, cs


def last(I, node, st, p):
    """yields (st, SStr | Raise)"""
    for st1, b in I.split(st, p.empty):
        if b:
            yield st1, I.exc('IndexError', node)
        elif p.vchars is not None:
            for st2, head, lastc in vec_last_split(I, st1, p):
                yield st2, SStr(chars=lastc)
        else:
            if p.known is not None:
                yield st1, SStr(chars=list(p.known[1]))
                continue
            h, l = inst(I, st1, p)
            yield st1, SStr(expr=l)


def del_last(I, node, st, ref):
    p = st.heap[ref.addr]
    for st1, b in I.split(st, p.empty):
        if b:
            yield st1, ('raise', SExc('IndexError'))
            continue
        if p.vchars is not None:
            for st2, head, lastc in vec_last_split(I, st1, p):
                o = st2.mut(ref.addr)
                if head is None:
                    o.empty = z3.BoolVal(True)
                    o.vchars = []
                else:
                    o.vchars = list(head)
                o.text = SStr(chars=o.vchars).z()
                yield st2, ('normal',)
            continue
        h, l = inst(I, st1, p)
        o = st1.mut(ref.addr)
        o.known = None
        o.empty = (h == z3.StringVal(''))
        o.text = z3.If(h == z3.StringVal(''), z3.StringVal(''), z3.SubString(h, 0, z3.Length(h) - 1))
        yield st1, ('normal',)


def join(I, st, sep, p):
    sc = sep.conc()
    if not z3.is_string_value(z3.simplify(p.sep)) or sc is None or z3.simplify(p.sep).as_string() != sc:
        raise EngineLimit('join of split pieces with a different separator')
    I.trusted.add('lemma L2: sep.join(text.split(sep)) == text')
    if p.vchars is not None:
        e = z3.simplify(p.empty)
        if z3.is_true(e):
            return SStr.const('')
        if z3.is_false(e):
            return SStr(chars=list(p.vchars))
    return SStr(expr=z3.If(p.empty, z3.StringVal(''), p.text))


def equal(I, a, b):
    if not a.sep.eq(b.sep):
        raise EngineLimit('equality of split pieces with different separators')
    I.trusted.add('lemma L1/L2: split is injective (text.split(sep) determines text)')
    return z3.And(a.empty == b.empty, z3.Or(a.empty, a.text == b.text))
