"""Regular-expression model.

A pattern string (re-extracted from the repository source on every run) is parsed with
CPython's own parser (re._parser) and turned into
  * a z3 regular expression (for native strings), and
  * an epsilon-NFA that is simulated symbolically over vector strings (membership of a
    string of n symbolic code points is a quantifier-free integer formula).
Supported: literals, classes (ranges, negation, \\d \\s \\w under re.ASCII), '.', greedy
and lazy repeats, groups, alternation, '^' at the start and '$' at the end of the
pattern.  Anything else raises Unsupported (the function is then outside reach).

What is *exact*: whether a match exists (backtracking search is complete for patterns
without look-around/back-references).  What is *assumed* (R2, cross-checked against
CPython by the bounded differential in rx_diff.py): for the anchored patterns used with
"group(0) == val", that the backtracking engine returns the whole string whenever the
whole string is in the language.
"""
import re
import re._parser as sp
import re._constants as sc
try:
    import z3
except ImportError:   # concrete simulation only (native differential)
    z3 = None


class Unsupported(Exception):
    pass


class Rx:
    """parsed pattern: core AST (anchors stripped), flags, anchors"""

    def __init__(self, pattern, flags=0):
        self.pattern = pattern
        self.flags = flags
        if flags & re.IGNORECASE or flags & re.MULTILINE or flags & re.VERBOSE:
            raise Unsupported('flags %r' % flags)
        p = sp.parse(pattern, flags)
        self.ngroups = p.state.groups - 1
        self.groupdict = dict(p.state.groupdict)
        items = list(p)
        self.anch_start = False
        self.anch_end = False
        if items and items[0][0] == sc.AT and items[0][1] == sc.AT_BEGINNING:
            self.anch_start = True
            items = items[1:]
        if items and items[-1][0] == sc.AT and items[-1][1] == sc.AT_END:
            self.anch_end = True
            items = items[:-1]
        self.core = items
        self._check(items)
        self.ascii = bool(flags & re.ASCII)
        self.dotall = bool(flags & re.DOTALL)
        self._nfa = None

    def _check(self, items):
        for op, av in items:
            if op in (sc.LITERAL, sc.NOT_LITERAL, sc.ANY, sc.IN):
                continue
            if op in (sc.MAX_REPEAT, sc.MIN_REPEAT):
                self._check(av[2])
            elif op == sc.SUBPATTERN:
                if av[1] or av[2]:
                    raise Unsupported('inline flags')
                self._check(av[3])
            elif op == sc.BRANCH:
                for alt in av[1]:
                    self._check(alt)
            else:
                raise Unsupported('regex op %s' % op)

    # ---- character classes ------------------------------------------------------
    def _class_ranges(self, op, av):
        """-> (ranges list[(lo,hi)], negate)"""
        if op == sc.LITERAL:
            return [(av, av)], False
        if op == sc.NOT_LITERAL:
            return [(av, av)], True
        if op == sc.ANY:
            if self.dotall:
                return [(0, 0x10FFFF)], False
            return [(10, 10)], True
        if op == sc.IN:
            neg = False
            rs = []
            for o, a in av:
                if o == sc.NEGATE:
                    neg = True
                elif o == sc.LITERAL:
                    rs.append((a, a))
                elif o == sc.RANGE:
                    rs.append((a[0], a[1]))
                elif o == sc.CATEGORY:
                    if not self.ascii:
                        raise Unsupported('unicode category')
                    if a == sc.CATEGORY_DIGIT:
                        rs.append((48, 57))
                    elif a == sc.CATEGORY_SPACE:
                        rs += [(9, 13), (32, 32)]
                    elif a == sc.CATEGORY_WORD:
                        rs += [(48, 57), (65, 90), (95, 95), (97, 122)]
                    else:
                        raise Unsupported('category %s' % a)
                else:
                    raise Unsupported('class item %s' % o)
            return rs, neg
        raise Unsupported(op)

    @staticmethod
    def class_pred(rs, neg, c):
        """z3 Bool: code point c (z3 Int) is in the class"""
        if z3.is_int_value(c):
            v = c.as_long()
            r = any(lo <= v <= hi for lo, hi in rs)
            return z3.BoolVal(r != neg)
        f = z3.Or([c == lo if lo == hi else z3.And(c >= lo, c <= hi) for lo, hi in rs]) if rs else z3.BoolVal(False)
        return z3.Not(f) if neg else f

    # ---- z3 native regex --------------------------------------------------------
    def z3re(self, items=None):
        if items is None:
            items = self.core
        parts = [self._z3item(op, av) for op, av in items]
        if not parts:
            return z3.Re(z3.StringVal(''))
        return parts[0] if len(parts) == 1 else z3.Concat(*parts)

    def _z3item(self, op, av):
        RS = z3.ReSort(z3.StringSort())
        if op in (sc.LITERAL, sc.NOT_LITERAL, sc.ANY, sc.IN):
            rs, neg = self._class_ranges(op, av)
            us = [z3.Range(chr(lo), chr(hi)) if lo != hi else z3.Re(z3.StringVal(chr(lo))) for lo, hi in rs]
            u = us[0] if len(us) == 1 else z3.Union(*us)
            if neg:
                return z3.Diff(z3.AllChar(RS), u)
            return u
        if op in (sc.MAX_REPEAT, sc.MIN_REPEAT):
            lo, hi, sub = av
            r = self.z3re(list(sub))
            if hi == sc.MAXREPEAT:
                if lo == 0:
                    return z3.Star(r)
                if lo == 1:
                    return z3.Plus(r)
                return z3.Concat(z3.Loop(r, lo, lo), z3.Star(r))
            if lo == 0 and hi == 1:
                return z3.Option(r)
            return z3.Loop(r, lo, hi)
        if op == sc.SUBPATTERN:
            return self.z3re(list(av[3]))
        if op == sc.BRANCH:
            alts = [self.z3re(list(a)) for a in av[1]]
            return alts[0] if len(alts) == 1 else z3.Union(*alts)
        raise Unsupported(op)

    # ---- NFA --------------------------------------------------------------------
    def nfa(self):
        if self._nfa is None:
            b = _NFABuilder(self)
            s, f = b.build(self.core)
            self._nfa = (b, s, f)
        return self._nfa

    def vec_match(self, chars, i=0, j=None):
        """z3 Bool: chars[i:j] is in L(core)"""
        if j is None:
            j = len(chars)
        b, s0, f = self.nfa()
        cur = {t: z3.BoolVal(True) for t in b.closure(s0)}
        for k in range(i, j):
            c = chars[k]
            nxt = {}
            for s, fm in cur.items():
                for (rs, neg, t) in b.trans.get(s, ()):
                    g = z3.And(fm, self.class_pred(rs, neg, c))
                    for t2 in b.closure(t):
                        nxt.setdefault(t2, []).append(g)
            cur = {t: z3.simplify(z3.Or(gs)) for t, gs in nxt.items()}
            cur = {t: g for t, g in cur.items() if not z3.is_false(g)}
            if not cur:
                return z3.BoolVal(False)
        return cur.get(f, z3.BoolVal(False))

    def accepts(self, text):
        """concrete NFA simulation: text (whole) in L(core)"""
        b, s0, f = self.nfa()
        cur = set(b.closure(s0))
        for ch in text:
            v = ord(ch)
            nxt = set()
            for s in cur:
                for (rs, neg, t) in b.trans.get(s, ()):
                    if any(lo <= v <= hi for lo, hi in rs) != neg:
                        nxt |= b.closure(t)
            cur = nxt
            if not cur:
                return False
        return f in cur

    def search_exists(self, text, anchored=False):
        """model of `rec.search(text) is not None` (rec.match when anchored)"""
        n = len(text)
        starts = [0] if (self.anch_start or anchored) else range(n + 1)
        for i in starts:
            for j in range(i, n + 1):
                if self.anch_end and not (j == n or (j == n - 1 and text[-1] == '\n')):
                    continue
                if self.accepts(text[i:j]):
                    return True
        return False

    def alphabet(self):
        """one representative per class boundary + every literal of the pattern + an outsider"""
        pts = set()
        def walk(items):
            for op, av in items:
                if op in (sc.LITERAL, sc.NOT_LITERAL, sc.ANY, sc.IN):
                    rs, neg = self._class_ranges(op, av)
                    for lo, hi in rs:
                        pts.add(lo); pts.add(hi)
                        if lo > 0: pts.add(lo - 1)
                        pts.add(hi + 1)
                elif op in (sc.MAX_REPEAT, sc.MIN_REPEAT):
                    walk(av[2])
                elif op == sc.SUBPATTERN:
                    walk(av[3])
                elif op == sc.BRANCH:
                    for a in av[1]:
                        walk(a)
        walk(self.core)
        pts.add(10)
        return sorted(p for p in pts if 0 <= p <= 0x10FFFF)

    def accepts_empty(self):
        b, s0, f = self.nfa()
        return f in b.closure(s0)


class _NFABuilder:
    def __init__(self, rx):
        self.rx = rx
        self.n = 0
        self.eps = {}
        self.trans = {}
        self._clo = {}

    def new(self):
        self.n += 1
        return self.n

    def e(self, a, b):
        self.eps.setdefault(a, set()).add(b)

    def build(self, items):
        s = self.new()
        cur = s
        for op, av in items:
            a, b = self.item(op, av)
            self.e(cur, a)
            cur = b
        return s, cur

    def item(self, op, av):
        if op in (sc.LITERAL, sc.NOT_LITERAL, sc.ANY, sc.IN):
            rs, neg = self.rx._class_ranges(op, av)
            a, b = self.new(), self.new()
            self.trans.setdefault(a, []).append((rs, neg, b))
            return a, b
        if op in (sc.MAX_REPEAT, sc.MIN_REPEAT):
            lo, hi, sub = av
            a = self.new()
            cur = a
            for _ in range(lo):
                s, f = self.build(list(sub))
                self.e(cur, s)
                cur = f
            end = self.new()
            if hi == sc.MAXREPEAT:
                s, f = self.build(list(sub))
                self.e(cur, s)
                self.e(f, s)
                self.e(f, end)
                self.e(cur, end)
            else:
                self.e(cur, end)
                for _ in range(hi - lo):
                    s, f = self.build(list(sub))
                    self.e(cur, s)
                    cur = f
                    self.e(cur, end)
            return a, end
        if op == sc.SUBPATTERN:
            return self.build(list(av[3]))
        if op == sc.BRANCH:
            a, b = self.new(), self.new()
            for alt in av[1]:
                s, f = self.build(list(alt))
                self.e(a, s)
                self.e(f, b)
            return a, b
        raise Unsupported(op)

    def closure(self, s):
        if s not in self._clo:
            seen = {s}
            st = [s]
            while st:
                x = st.pop()
                for y in self.eps.get(x, ()):
                    if y not in seen:
                        seen.add(y)
                        st.append(y)
            self._clo[s] = seen
        return self._clo[s]


# ---------------------------------------------------------------------------------------------
# Ordered-choice (backtracking) matcher over a vector of symbolic code points.
# Enumerates the match paths of CPython's backtracking engine IN PRIORITY ORDER; each path carries the
# condition (a conjunction of character-class predicates) under which it succeeds.  The match the
# engine returns is the first path whose condition holds.  Exact for the supported constructs
# (no assumption about which match is returned); exponential only in the number of alternatives.

def backtrack_paths(R, chars, start, anchored_end, limit=20000):
    """-> list of (conds: [z3 Bool], end: int, groups: {idx: (s, e)}) in priority order, for a match
    attempt that starts at position `start`"""
    n = len(chars)
    out = []
    count = [0]

    def seq(items, i, pos, conds, groups, k):
        if i == len(items):
            yield from k(pos, conds, groups)
            return
        op, av = items[i]
        if op in (sc.LITERAL, sc.NOT_LITERAL, sc.ANY, sc.IN):
            if pos >= n:
                return
            rs, neg = R._class_ranges(op, av)
            p = R.class_pred(rs, neg, chars[pos])
            if z3.is_false(p):
                return
            yield from seq(items, i + 1, pos + 1, conds if z3.is_true(p) else conds + [p], groups, k)
            return
        if op in (sc.MAX_REPEAT, sc.MIN_REPEAT):
            lo, hi, sub = av
            sub = list(sub)
            greedy = op == sc.MAX_REPEAT

            def rep(cnt, pos, conds, groups):
                def more():
                    if hi == sc.MAXREPEAT or cnt < hi:
                        def after(p2, c2, g2):
                            if p2 == pos and cnt >= lo:
                                return      # zero-width iteration: no progress
                            yield from rep(cnt + 1, p2, c2, g2)
                        yield from seq(sub, 0, pos, conds, groups, after)

                def stop():
                    if cnt >= lo:
                        yield from seq(items, i + 1, pos, conds, groups, k)
                if greedy:
                    yield from more()
                    yield from stop()
                else:
                    yield from stop()
                    yield from more()
            yield from rep(0, pos, conds, groups)
            return
        if op == sc.SUBPATTERN:
            gid, _, _, sub = av

            def after(p2, c2, g2):
                g3 = dict(g2)
                if gid is not None:
                    g3[gid] = (pos, p2)
                yield from seq(items, i + 1, p2, c2, g3, k)
            yield from seq(list(sub), 0, pos, conds, groups, after)
            return
        if op == sc.BRANCH:
            for alt in av[1]:
                yield from seq(list(alt) + items[i + 1:], 0, pos, conds, groups, k)
            return
        raise Unsupported(op)

    def final(pos, conds, groups):
        count[0] += 1
        if count[0] > limit:
            raise Unsupported('too many backtracking paths')
        if anchored_end:
            if pos == n:
                yield (conds, pos, groups)
            elif pos == n - 1:
                yield (conds + [chars[n - 1] == 10], pos, groups)
        else:
            yield (conds, pos, groups)
    for r in seq(list(R.core), 0, start, [], {}, final):
        out.append(r)
    return out
