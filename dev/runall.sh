#!/bin/bash
# dev: run every claimed check on /repo (quick tier), writing evidence/; one line per property
cd /verif
for p in $(python3 -c "import json;print(' '.join(c['property_id'] for c in json.load(open('MANIFEST.json'))['checks']))"); do
  t0=$(date +%s)
  timeout 3000 ./check $p --tier ${1:-quick} > dev/scratch/run_$p.out 2>&1
  rc=$?
  echo "$p exit=$rc wall=$(( $(date +%s) - t0 ))s $(grep -E '^(OK|VIOLATION|UNDECIDED|CHECKER)' dev/scratch/run_$p.out | head -2 | cut -c1-200 | tr '\n' ' ')"
done
