import sys, time
sys.path.insert(0,'/verif')
import importlib, pkgutil, contracts
for m in pkgutil.iter_modules(contracts.__path__):
    importlib.import_module('contracts.'+m.name)
from pyvc.verify import *
from pyvc.interp import Interp
import pyvc.interp as PI
q=sys.argv[1]; idx=int(sys.argv[2])
I=Interp('/repo','/verif')
orig=I.feasible
times=[]
def feas(pc):
    t=time.time(); r=orig(pc); dt=time.time()-t
    if dt>0.0005: times.append((dt,len(pc),r))
    return r
I.feasible=feas
rep=FuncReport(q)
t=time.time()
cov=generate(I,q,rep,{},{idx})
print('gen',time.time()-t,'obl',len(I.obligations),I.stats)
times.sort(reverse=True)
print('calls',len(times),'total',sum(t[0] for t in times))
print(times[:10])
# dump the first slow pc
import z3
def feas2(pc):
    t=time.time(); r=orig(pc); dt=time.time()-t
    if dt>0.3:
        s=z3.Solver(); s.add(*pc); open('/verif/dev/slow.smt2','w').write(s.to_smt2()); raise SystemExit
    return r
I2=Interp('/repo','/verif'); orig=I2.feasible; I2.feasible=feas2
try:
    generate(I2,q,FuncReport(q),{},{idx})
except SystemExit: pass
