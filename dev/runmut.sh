#!/bin/bash
# dev: run a mutation catalogue in the background, streaming results to dev/mutlogs/<name>.log
cd /verif
timeout 9000 python3-vt pyvc/mutate.py "$@" > dev/mutlogs/$1.log 2>&1
