; benchmark generated from python API
(set-info :status unknown)
(declare-sort O_Segment 0)
(declare-datatypes ((Opt_Str 0)) (((none_Opt_Str) (some_Opt_Str (get_Opt_Str String)))))
(declare-datatypes ((Tup_Str_Opt_Str_ 0)) (((Tup_Str_Opt_Str_ (project0 String) (project1 Opt_Str)))))
(declare-fun self.hl_count!7 () Int)
(declare-fun self.lx_count!16 () Int)
(declare-fun self.gs_count!5 () Int)
(declare-fun self.st_count!6 () Int)
(declare-fun self.seg_count!8 () Int)
(declare-fun Segment.is_empty (O_Segment) Bool)
(declare-fun seg_data!19 () O_Segment)
(declare-fun Segment.is_seg_id_valid (O_Segment) Bool)
(declare-fun Segment.get_seg_id (O_Segment) String)
(declare-fun Segment.get_seg_id.isnone (O_Segment) Bool)
(declare-fun Segment.get_value.isnone (O_Segment String) Bool)
(declare-fun probe!0 () Int)
(declare-fun self.loops!1 () (Seq Tup_Str_Opt_Str_))
(declare-fun probe!1 () (Seq Tup_Str_Opt_Str_))
(declare-fun self.hl_stack!3 () (Seq Int))
(declare-fun probe!2 () (Seq Int))
(declare-fun probe!3 () Int)
(declare-fun probe!4 () Int)
(declare-fun probe!5 () Int)
(declare-fun probe!6 () Int)
(declare-fun self.cur_line!9 () Int)
(declare-fun probe!7 () Int)
(declare-fun self.isa_ids!10 () (Seq Opt_Str))
(declare-fun probe!8 () (Seq Opt_Str))
(declare-fun self.gs_ids!12 () (Seq Opt_Str))
(declare-fun probe!9 () (Seq Opt_Str))
(declare-fun self.st_ids!14 () (Seq Opt_Str))
(declare-fun probe!10 () (Seq Opt_Str))
(declare-fun probe!11 () Int)
(declare-fun self.check_837_lx!17 () Bool)
(declare-fun probe!12 () Bool)
(assert
 (<= 0 self.hl_count!7))
(assert
 (<= 0 self.lx_count!16))
(assert
 (<= 0 self.gs_count!5))
(assert
 (<= 0 self.st_count!6))
(assert
 (<= 0 self.seg_count!8))
(assert
 (let (($x57 (Segment.is_empty seg_data!19)))
 (not $x57)))
(assert
 (let (($x55 (Segment.is_seg_id_valid seg_data!19)))
 (let (($x45 (not $x55)))
 (not $x45))))
(assert
 (let ((?x20 (Segment.get_seg_id seg_data!19)))
 (let (($x62 (= ?x20 "ISA")))
 (let (($x54 (Segment.get_seg_id.isnone seg_data!19)))
 (let (($x82 (not $x54)))
 (let (($x63 (and $x82 $x62)))
 (not $x63)))))))
(assert
 (let ((?x20 (Segment.get_seg_id seg_data!19)))
 (let (($x107 (= ?x20 "GS")))
 (let (($x54 (Segment.get_seg_id.isnone seg_data!19)))
 (let (($x82 (not $x54)))
 (let (($x117 (and $x82 $x107)))
 (not $x117)))))))
(assert
 (let ((?x20 (Segment.get_seg_id seg_data!19)))
 (let (($x119 (= ?x20 "ST")))
 (let (($x54 (Segment.get_seg_id.isnone seg_data!19)))
 (let (($x82 (not $x54)))
 (let (($x129 (and $x82 $x119)))
 (not $x129)))))))
(assert
 (let ((?x20 (Segment.get_seg_id seg_data!19)))
 (let (($x132 (= ?x20 "HL")))
 (let (($x54 (Segment.get_seg_id.isnone seg_data!19)))
 (let (($x82 (not $x54)))
 (and $x82 $x132))))))
(assert
 (Segment.get_value.isnone seg_data!19 "HL01"))
(assert
 (not false))
(assert
 (= 0 probe!0))
(assert
 (= probe!1 self.loops!1))
(assert
 (= probe!2 self.hl_stack!3))
(assert
 (= probe!3 self.gs_count!5))
(assert
 (= probe!4 self.st_count!6))
(assert
 (= probe!5 self.hl_count!7))
(assert
 (= probe!6 self.seg_count!8))
(assert
 (= probe!7 self.cur_line!9))
(assert
 (= probe!8 self.isa_ids!10))
(assert
 (= probe!9 self.gs_ids!12))
(assert
 (= probe!10 self.st_ids!14))
(assert
 (= probe!11 self.lx_count!16))
(assert
 (= probe!12 self.check_837_lx!17))
(check-sat)
