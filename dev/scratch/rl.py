import z3, time
# a query that takes a while: string constraints
s = z3.Solver()
a,b,c = z3.Strings('a b c')
s.add(z3.Length(a) > 5, z3.Concat(a,b) == z3.Concat(b,a), z3.Length(b) > 7, z3.Contains(a, z3.StringVal("xy")), z3.Not(z3.Contains(b, z3.StringVal("x"))))
s.set('timeout', 2000)
t=time.time(); r=s.check(); dt=time.time()-t
st=s.statistics()
print(r, dt, [ (k, st.get_key_value(k)) for k in st.keys() if 'rlimit' in k])
x = z3.Ints(' '.join('x%d'%i for i in range(40)))
s = z3.Solver()
for i in range(39): s.add(x[i]*x[i+1] > x[i]+x[i+1]+i, x[i] > 1)
s.add(z3.Sum(x) == 1000003)
s.set('timeout', 2000)
t=time.time(); r=s.check(); dt=time.time()-t
st=s.statistics()
print(r, dt, [ (k, st.get_key_value(k)) for k in st.keys() if 'rlimit' in k])
