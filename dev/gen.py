import sys, time
sys.path.insert(0,'/verif')
import importlib, pkgutil, contracts
for m in pkgutil.iter_modules(contracts.__path__):
    importlib.import_module('contracts.'+m.name)
from pyvc.verify import *
from pyvc.interp import Interp
import pyvc.solve as S
q=sys.argv[1]
I=Interp('/repo','/verif')
rep=FuncReport(q)
t=time.time()
cov=generate(I,q,rep,{})
print('gen',time.time()-t,'obligations',len(I.obligations),'prune',I.stats)
import collections
print(collections.Counter(o.name for o in I.obligations))
tmo=int(sys.argv[2]) if len(sys.argv)>2 else 5000
for k,o in enumerate(I.obligations):
    g=o.goal if not isinstance(o.goal,bool) else z3.BoolVal(o.goal)
    smt2,names=S.build_query(o.pc,g,o.tag.get('probes'))
    t=time.time()
    r=S.solve_one((k,smt2,names,tmo,tmo))
    print(k,o.name[-60:],o.tag.get('case'),S.verdict(r),r['z3'],r['cvc5'],round(time.time()-t,2),len(smt2), {kk:v for kk,v in (r['model'] or {}).items() if kk!='__raw__'} if S.verdict(r)=='sat' else '')
    if S.verdict(r)!='unsat' and '--dump' in sys.argv:
        open('/verif/dev/q%d.smt2'%k,'w').write(smt2)
