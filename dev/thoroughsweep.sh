#!/bin/bash
cd /verif
for seed in 0 1; do
  for r in $(grep -v "pipeline_c0[67]" dev/scratch/runners.txt); do
    timeout 3000 /venv/bin/python pyvc/bounded_native.py /repo /verif $r $seed thorough 2>/dev/null | python3 -c "
import json,sys
try:
    d=json.load(sys.stdin)
except Exception as e:
    print('$r seed=$seed CRASH'); sys.exit()
print('$r seed=$seed evals', d.get('evaluations'), 'failures', len(d.get('failures') or []))
for f in d.get('failures') or []: print('   ', f['detail'][:300], '|', str(f.get('input'))[:160])"
  done
done
