"""dev/seedtest.py <seed_dir> <prop> : confirm a seeded change (demo passes on the unchanged tree, fails with the patch,
listed tests pass with the patch) and run the property's check against the patched scratch copy."""
import os, shutil, subprocess, sys, tempfile, json
seed, prop = os.path.abspath(sys.argv[1]), sys.argv[2]
tests = sys.argv[3:] or ['pyx12/test']
tmp = tempfile.mkdtemp(prefix='pyvc_seed_')
out = {}
try:
    dst = os.path.join(tmp, 'repo')
    shutil.copytree('/repo', dst, ignore=shutil.ignore_patterns('.git', '__pycache__', '*.pyc'))
    env = dict(os.environ); env.pop('PYTHONPATH', None); env['PYTHONWARNINGS'] = 'ignore'
    r0 = subprocess.run(['/venv/bin/python', os.path.join(seed, 'demo.py')], cwd=dst, capture_output=True, text=True, env=env)
    out['demo_unpatched_exit'] = r0.returncode
    pa = subprocess.run(['patch', '-p1', '-i', os.path.join(seed, 'patch.diff')], cwd=dst, capture_output=True, text=True)
    out['patch_applies'] = pa.returncode == 0
    if pa.returncode != 0:
        out['patch_msg'] = (pa.stdout + pa.stderr)[-300:]
    r1 = subprocess.run(['/venv/bin/python', os.path.join(seed, 'demo.py')], cwd=dst, capture_output=True, text=True, env=env)
    out['demo_patched_exit'] = r1.returncode
    t = subprocess.run(['/venv/bin/python', '-m', 'pytest', '-q', '-p', 'no:cacheprovider', '--timeout=900', '-x'] + tests, cwd=dst, capture_output=True, text=True, env=env)
    out['tests_patched'] = t.stdout.strip().split('\n')[-1][:100]
    e2 = dict(os.environ); e2['PYVC_EVIDENCE_DIR'] = os.path.join(tmp, 'ev'); e2['PYVC_REPLAY_DIR'] = os.path.join(tmp, 'rp')
    c = subprocess.run(['/verif/check', prop, '--repo', dst], capture_output=True, text=True, env=e2)
    out['check_exit'] = c.returncode
    out['check_lines'] = [l[:200] for l in c.stdout.split('\n') if l.startswith(('VIOLATION', 'UNDECIDED', 'OK', 'CHECKER', '  obligation', '  real code', 'KNOWN'))][:8]
finally:
    shutil.rmtree(tmp, ignore_errors=True)
print(json.dumps(out, indent=1))
