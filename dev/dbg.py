import sys, time
sys.path.insert(0,'/verif')
import importlib, pkgutil, contracts
for m in pkgutil.iter_modules(contracts.__path__):
    importlib.import_module('contracts.'+m.name)
from pyvc.verify import *
from pyvc.interp import Interp
import pyvc.solve as S
q=sys.argv[1]; idx=int(sys.argv[2]); pat=sys.argv[3]
I=Interp('/repo','/verif')
rep=FuncReport(q)
cov=generate(I,q,rep,{},{idx})
for k,o in enumerate(I.obligations):
    if pat not in o.name: continue
    s=z3.Solver(); s.set('timeout',5000); s.add(*o.pc); s.add(z3.Not(o.goal))
    if s.check()==z3.sat:
        m=s.model()
        print('SAT obligation',k,o.name)
        print('goal:', o.goal.sexpr()[:1500])
        vals={str(d):m[d] for d in m.decls() if 'path_str' in str(d)}
        print(vals)
        print('pc tail:')
        for f in o.pc[-12:]: print('   ', f.sexpr()[:300].replace('\n',' '))
        break
