#!/bin/bash
# dev: kill processes whose command line contains $1, except this script and its ancestors
me=$$; anc=" $me "; p=$me
while [ "$p" != "1" ] && [ -n "$p" ]; do p=$(ps -o ppid= -p $p | tr -d ' '); anc="$anc$p "; done
for pid in $(pgrep -f -- "$1"); do case "$anc" in *" $pid "*) ;; *) kill $pid 2>/dev/null;; esac; done
