import sys, time
sys.path.insert(0,'/verif')
import importlib, pkgutil, contracts
for m in pkgutil.iter_modules(contracts.__path__):
    importlib.import_module('contracts.'+m.name)
from pyvc.verify import *
from pyvc.interp import Interp
import pyvc.solve as S
q=sys.argv[1]; idx=int(sys.argv[2]); pat=sys.argv[3]
I=Interp('/repo','/verif')
rep=FuncReport(q)
cov=generate(I,q,rep,{},{idx})
n=0
for k,o in enumerate(I.obligations):
    if pat not in o.name: continue
    g=o.goal if not isinstance(o.goal,bool) else z3.BoolVal(o.goal)
    smt2,names=S.build_query(o.pc,g,o.tag.get('probes'))
    qf,_=S.build_query(o.pc,g,o.tag.get('probes'),drop_quantified=True)
    t=time.time()
    r=S.solve_one((k,smt2,names,5000,5000,qf))
    print(k,o.name[-40:],S.verdict(r),r['z3'],r.get('weak'),round(time.time()-t,2))
    n+=1
    if S.verdict(r)=='unknown':
        open('/verif/dev/unk.smt2','w').write(qf); open('/verif/dev/unk_full.smt2','w').write(smt2); break
