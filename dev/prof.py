import sys, time, faulthandler
sys.path.insert(0,'/verif')
faulthandler.dump_traceback_later(int(sys.argv[3]) if len(sys.argv)>3 else 30, exit=True)
import importlib, pkgutil, contracts
for m in pkgutil.iter_modules(contracts.__path__):
    importlib.import_module('contracts.'+m.name)
from pyvc.verify import _verify_cases
q=sys.argv[1]; idx=int(sys.argv[2])
t=time.time()
r=_verify_cases(('/repo','/verif',q,{'procs':1},{idx}))
print(idx, 'err',r.error,'gen',r.gen_s,'solve',r.solve_s,'q',r.queries,'paths',r.paths, 'prune', getattr(r,'prune_calls',None), time.time()-t)
for k,v in r.obligations.items(): print('  ',k,v['queries'],v['sat'],v['unknown'])
for x in r.refuted[:3]: print('REF',x['obligation'],x['case'],{k:v for k,v in (x['model'] or {}).items() if k!='__raw__'})
for x in r.undecided[:3]: print('UND',x)
