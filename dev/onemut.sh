#!/bin/bash
# dev: onemut.sh <prop> <mutant-name> [procs]: apply one catalogue mutant to a scratch copy and run the check exactly as mutate.py does
cd /verif
D=$(mktemp -d /tmp/onemut_XXXX)
mkdir -p $D/repo; cp -r /repo/pyx12 $D/repo/; rm -rf $D/repo/pyx12/test
python3 - "$1" "$2" "$D" <<'PY'
import sys, importlib
sys.path.insert(0,'/verif')
M=importlib.import_module('mutants.'+sys.argv[1])
m=[x for x in M.MUTANTS if x['name']==sys.argv[2]][0]
p=sys.argv[3]+'/repo/'+m['file']; s=open(p).read(); assert m['old'] in s; open(p,'w').write(s.replace(m['old'],m['new'],1))
PY
time (PYVC_EVIDENCE_DIR=$D/evidence PYVC_REPLAY_DIR=$D/replay timeout 1500 /verif/check $1 --tier quick --repo $D/repo --procs ${3:-12} 2>&1 | cut -c1-160 | grep -v "^  " | tail -6)
rm -rf $D
