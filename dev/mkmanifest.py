"""regenerate MANIFEST.json from props.py + per-property texts (dev helper)"""
import json, sys
sys.path.insert(0, '/verif')
TEXT = {
 'C13': dict(level='proof', technique='contract-based deductive verification: sidecar contracts on the real functions, AST->SMT symbolic execution (pyvc), z3/cvc5',
   text='Every function of pyx12/validation.py (IsValidDataType, match_re, not_match_re, is_valid_date, is_valid_time) is proved equal to an executable value-language specification written from the statement, for ALL strings (complete length split into code-point vectors plus the unbounded residual; regex patterns re-extracted from the source each run) and every (type, charset, version) setting, and proved exception-free. Callers are checked against callee contracts.',
   note='Trusted: the ast->SMT semantics model of the Python subset (cross-checked against CPython on seeded inputs each run); assumption R2 about which match re.search returns for the two anchored patterns and the regex->NFA translation (bounded-exhaustive differential against CPython re each run, labelled bounded); int() on non-[+-]?digits strings is an uninterpreted deterministic function; z3/cvc5 soundness. Recursion of IsValidDataType (RD8->D8) is by its own contract: partial correctness, termination not proved.',
   ref='5 C13'),
 'C14': dict(level='proof', technique='contract-based deductive verification (pyvc: AST->SMT, z3/cvc5) + exhaustive ground discharge of the configuration precondition',
   text='is_syntax_valid is proved to report a violation exactly when the X12 definition of the P/R/E/C/L note says so, for every note of 2..6 positions (any positions 1..99), every presence pattern and every segment length, against an abstract read-only Segment; _split_syntax is proved to parse the note text. The shipped maps are scanned exhaustively each run: every <syntax> has 2..6 two-digit positions (max seen: 4), so the case split is complete for the configuration.',
   note='Trusted: semantics model; abstract Segment (get_value/__len__ are pure functions of the receiver - their concrete meaning is the C17 contract); the routing of a violation to element error code 10 (E) / 2 (others) in segment_if.is_valid is not yet under contract (listed as unverified caller). Ground evaluation is finite and exhaustive, not a proof.',
   ref='5 C14'),
 'C04': dict(level='proof', technique='contract-based deductive verification (pyvc: AST->SMT, z3/cvc5): step simulation against an executable recount spec, loop invariants with ghost state',
   text='X12Base._parse_segment, X12Reader._parse_segment and X12Reader.cleanup are proved, for every reader state and every segment, to update the envelope state and to emit envelope errors (isa 025/024/001/021/023, gs 6/3/4/5, st 23/3/4/2, seg HL1/HL2/LX) exactly as an independent recount written from the statement does (properly placed segments), to emit at least one envelope error for every misplaced trailer, and to raise nothing but the documented X12Error. The HL while-loop and the cleanup for-loop are cut at inductive invariants (ghost sequences).',
   note='Trusted: semantics model; abstract Segment view (seg_id, length, elements) read through reference designators per the C17 contract; int() on texts of unknown length is an uninterpreted deterministic function with int(str(n))==n; sequence lemma instances (snoc / prefix-snoc) and the fold/filter-map homomorphism axioms (quantified, true of the python definitions). Whole-sequence claim (any non-nested arrangement draws an error) is composed informally from the per-step obligations (DESIGN 5 C04). Known finding K3 (misplaced HEADERS draw no error) is excluded and listed.',
   ref='5 C04'),
 'C11': dict(level='proof', technique='contract-based deductive verification (pyvc): inductive read-back invariant over a ghost output log (seq_fold), z3/cvc5',
   text='X12Writer.Write and X12Writer.Close (with _popToLoop, _close_*, _write_segment, _write_isa_segment and X12Base._parse_segment inlined from the real source) are proved to preserve the invariant that the reader\'s own recount over everything written so far shows no envelope discrepancy and agrees with the writer\'s counters, that a trailer of kind K closes through K, that non-trailer segments are appended unchanged, and that Close from any reachable state leaves an empty stack and a clean read-back. Stack depth 0..3 is a complete case split for well-nested sequences.',
   note='Assumed contract: X12Writer._get_trailer_segment (depends on Segment text parsing, C01) - covered by a BOUNDED native stand-in (grid of delimiters/kinds/counts/ids), not proved. Output is modelled at the level of segment views: the text layer (format then parse) is C01. Trusted: semantics model, abstract Segment view, text-output model (write appends), fold axioms, int(str(n))==n.',
   ref='5 C11'),
 'C16': dict(level='other', technique='exhaustive ground evaluation of the representation invariants assumed by the other contracts, through the real loader',
   text='Every index entry, every map file and every one of the ~24k nodes of the shipped configuration is checked each run: files load, usages/repeats/positions/seq well formed, data elements and external code sets defined, same-position siblings distinguishable, index keys unambiguous, nodes addressable by their own path (getnodebypath / getnodebypath2), paths unique, explicit map directory == packaged resources.',
   note='Finite and exhaustive, no SMT: ground evaluation, not proof. Ten listed known findings (path addressing of elements/composites, 997 AK2 loop ids, duplicate CTX, overlapping qualifiers, 841 map, undefined data elements) are reported as KNOWN-FINDING with exact node counts; any node beyond them is a VIOLATION.',
   ref='5 C16'),
 'C18': dict(level='other', technique='modifies-frame / determinism obligations discharged by conservative syntactic analysis of the real AST (contract frames), differential native replay',
   text='For every function of the package: no write to module or class state, no mutation of module/class level mutables, no mutated (or escaping-and-mutated) mutable default argument, no result cache, time/random only in the three documented places, no set iteration order reaching a value, no reflection. One obligation per (rule, module); findings outside a reasoned allow-list refute it; hash-order findings are replayed natively under different PYTHONHASHSEED.',
   note='Syntactic and name based: sound only in the absence of reflection (checked) and conservative (false alarms possible, handled by the reasoned allow-list in contracts/frames.py). Does not prove semantic independence of histories; it proves the absence of the mechanisms by which one call could influence another.',
   ref='5 C18'),
 'C01': dict(level='proof', technique='contract-based deductive verification (pyvc) of Segment parse/format and the reader loop; bounded native differential for the raw tokeniser',
   text='Segment.__init__ is proved to split a segment text only at the given element/component separators (never inside an ISA) into exactly the character-for-character values (all texts up to 6 (quick) / 8 (thorough) characters, any characters, any one-character delimiters); Segment.format is proved equal to the trimmed joined text on all segment shapes up to 2/3 elements x 2 components with unconstrained values; X12Reader.__iter__ is proved to raise nothing but the documented X12Error for ANY raw line. Chunk independence, source kinds and the format/read round trip are covered by a BOUNDED native differential against an independent tokeniser.',
   note='RawX12File.__init__/__iter__ (nested loops over strings of unknown length behind an arbitrary stream) are NOT under a deductive contract: bounded stand-in only (fixtures x delimiters x line ends x perturbations incl. >8 KiB segments and empty segments x read chunkings). Segment parse proof is bounded in text length, format proof bounded in shape. The Segment constructor is used abstractly by the reader loop (assumed total).',
   ref='5 C01'),
 'C15': dict(level='proof', technique='contract-based deductive verification (pyvc): ghost error log, opaque spec functions, callee contracts from C13',
   text='element_if.is_valid (with _is_valid_code and _error inlined) is proved, for every element definition (usage, data element type/min/max, inline code list, external code set, pattern, position in a composite), every value of any length and every qualifier-selected format list of up to two entries, to report exactly the error codes the definition implies (1, 10, 4, 5, 6, 7, 8, 9) and to return False exactly when it reported one; contains_control_character is proved against the control-character set. Callers use IsValidDataType through its C13 contract.',
   note='Known finding K4 (a value with a control character gets code 6 only) excluded and listed. composite_if.is_valid and segment_if.is_valid are covered by a BOUNDED native stand-in on every segment node of shipped maps, not proved. Trusted: data element table and external code sets as deterministic functions (defined-ness: ground C16), str.replace(c, \'\') length/count facts, rstrip() as uninterpreted function, compiled element patterns abstract.',
   ref='5 C15'),
 'C17': dict(level='proof', technique='contract-based deductive verification (pyvc) with an exact ordered-choice model of the backtracking regex engine; exhaustive ground evaluation over shipped node paths',
   text='X12Path.__init__ is proved, for every text of up to 10 (quick) / 12 (thorough) characters, to print back exactly the well-formed paths of the documented grammar, to yield exactly the designator parts, and to raise X12PathError exactly for a qualifier / element index without segment id after loop ids (regex capture groups modelled exactly, no assumption about which match is returned). Segment.get_value and Segment.set are proved against the view laws (read-after-write, padding with empty positions, every other position unchanged, foreign segment id refused) on real Segment/Composite/Element object graphs of bounded shape. Every loop/segment path of every shipped map round-trips (ground, exhaustive).',
   note='Bounded in text length (paths) and in shape (segments up to 2/3 elements x 2 components, designators up to element 05 / component 4); values, delimiters and characters unconstrained. join-after-split identity of str.split/str.join is the trusted lemma L1/L2.',
   ref='5 C17'),
 'C19': dict(level='proof', technique='contract-based verification of the escaping function (SMT for len<=3 + kernel-checked Lean lemma for all lengths) and syntactic taint obligations on every write of the report',
   text='escape_html_chars is proved to be the character code & -> &amp;, blank -> &nbsp;, > -> &gt;, < -> &lt; (SMT, all strings up to 3 characters; Lean: the replace chain of the source is flatMap of that code for all lengths, its image holds no raw < or >). Every hole of every fd.write in error_html.py is a literal, an integer conversion or a value that went through escape_html_chars (one obligation per write site).',
   note='The replace chain is re-extracted from the source each run and compared with the chain the Lean theorem is about; python str.replace(one char) == flatMap is the trusted transcription. Taint analysis is syntactic. Document-level completeness (every segment once, errors next to their segment) is a BOUNDED native stand-in on fixtures with injected faults.',
   ref='5 C19'),
 'C08': dict(level='proof', technique='contract-based verification of the XML escaping functions (SMT + Lean); bounded native round trip',
   text='XMLWriter._escape_cont and _escape_attr are proved to be the XML character codes (SMT up to 3 characters, Lean lemma for all lengths). Loop nesting of x12xml_simple.seg and the XML->X12 inverse are covered by a BOUNDED native stand-in on fixtures (well-formedness, fresh element per repeated loop, segment-for-segment round trip with markup characters in the data).',
   note='Only the escaping layer is proved; x12xml_simple.seg stack discipline and xmlx12_simple.get_segment are not under contract (bounded stand-in). ElementTree is assumed to invert the escapes.',
   ref='5 C08'),
}
NA = [
  {"property_id": "C02", "reason": "completeness of the map walker over the language generated by each map: no per-function contract within reach states 'conformant document' without restating the walker (DESIGN.md section 6)"},
  {"property_id": "C03", "reason": "whole-walk localisation statement over documents x maps; element-level fault kinds are decided under C13/C14/C15 (DESIGN.md section 6)"},
]
import props
checks = []
for pid in sorted(props.PROPS):
    if pid not in TEXT: continue
    t = TEXT[pid]
    checks.append({
      "property_id": pid,
      "quick_cmd": "./check %s --tier quick" % pid,
      "thorough_cmd": "./check %s --tier thorough" % pid,
      "evidence_file": "evidence/%s.json" % pid,
      "replay_cmd_template": "./check %s --replay {path}" % pid,
      "engine": "pyvc",
      "level_claimed": {"category": t['level'], "text": t['text'], "design_ref": t['ref']},
      "level_note": t['note'],
      "technique": t['technique'],
    })
claimed = {c['property_id'] for c in checks}
pending = ['C%02d' % i for i in range(1, 21) if 'C%02d' % i not in claimed and 'C%02d' % i not in ('C02', 'C03')]
na = list(NA) + [{"property_id": p, "reason": "not yet claimed: contracts for this property are still being built in this session (see DESIGN.md section 9); no check is registered so nothing is claimed"} for p in pending]
m = {
 "version": 1,
 "setup_cmd": "true",
 "hooks": {"guard": "PYX12_VERIF", "enable": "no source hooks: contracts are sidecar files keyed by qualified name; /repo source is re-read and re-hashed on every run", "baseline_off_cmd": "cd /repo && /venv/bin/python -m pytest -ra -q -p no:cacheprovider --timeout=900 --continue-on-collection-errors", "source_commits": [], "add_only": True},
 "engines": [{"name": "pyvc", "path": "pyvc/", "serves_properties": sorted(claimed), "kind_free_text": "contract-based deductive verifier for a Python subset: ast -> path-wise verification conditions -> z3 5.1 (API) / cvc5 1.0.3 (CLI); native replay of counter-models on the real code under /venv/bin/python"}],
 "checks": checks,
 "not_applicable": na,
 "notes": "exit codes of ./check: 0 held, 1 VIOLATION (replayed), 2 UNDECIDED (never reported as violation), 3 checker error. fix: commits in /repo are recorded in known_findings.json under 'fixed'."
}
json.dump(m, open('/verif/MANIFEST.json', 'w'), indent=1)
import jsonschema
jsonschema.validate(m, json.load(open('/root/.vp/MANIFEST.schema.json')))
print('manifest ok: claimed', sorted(claimed))
