"""regenerate MANIFEST.json from props.py + per-property texts (dev helper)"""
import json, sys
sys.path.insert(0, '/verif')
TEXT = {
 'C13': dict(level='proof', technique='contract-based deductive verification: sidecar contracts on the real functions, AST->SMT symbolic execution (pyvc), z3/cvc5',
   text='Every function of pyx12/validation.py (IsValidDataType, match_re, not_match_re, is_valid_date, is_valid_time) is proved equal to an executable value-language specification written from the statement, for ALL strings (complete length split into code-point vectors plus the unbounded residual; regex patterns re-extracted from the source each run) and every (type, charset, version) setting, and proved exception-free. Callers are checked against callee contracts.',
   note='Trusted: the ast->SMT semantics model of the Python subset (cross-checked against CPython on seeded inputs each run); assumption R2 about which match re.search returns for the two anchored patterns and the regex->NFA translation (bounded-exhaustive differential against CPython re each run, labelled bounded); int() on non-[+-]?digits strings is an uninterpreted deterministic function; z3/cvc5 soundness. Recursion of IsValidDataType (RD8->D8) is by its own contract: partial correctness, termination not proved.',
   ref='4 C13'),
 'C14': dict(level='proof', technique='contract-based deductive verification (pyvc: AST->SMT, z3/cvc5) + exhaustive ground discharge of the configuration precondition',
   text='is_syntax_valid is proved to report a violation exactly when the X12 definition of the P/R/E/C/L note says so, for every note of 2..6 positions (any positions 1..99), every presence pattern and every segment length, against an abstract read-only Segment; _split_syntax is proved to parse the note text. The shipped maps are scanned exhaustively each run: every <syntax> has 2..6 two-digit positions (max seen: 4), so the case split is complete for the configuration.',
   note='Trusted: semantics model; abstract Segment (get_value/__len__ are pure functions of the receiver - their concrete meaning is the C17 contract); the routing of a violation to element error code 10 (E) / 2 (others) in segment_if.is_valid is not yet under contract (listed as unverified caller). Ground evaluation is finite and exhaustive, not a proof.',
   ref='4 C14'),
 'C04': dict(level='proof', technique='contract-based deductive verification (pyvc: AST->SMT, z3/cvc5): step simulation against an executable recount spec, loop invariants with ghost state',
   text='X12Base._parse_segment, X12Reader._parse_segment and X12Reader.cleanup are proved, for every reader state and every segment, to update the envelope state and to emit envelope errors (isa 025/024/001/021/023, gs 6/3/4/5, st 23/3/4/2, seg HL1/HL2/LX) exactly as an independent recount written from the statement does (properly placed segments), to emit at least one envelope error for every misplaced trailer, and to raise nothing but the documented X12Error. The HL while-loop and the cleanup for-loop are cut at inductive invariants (ghost sequences).',
   note='Trusted: semantics model; abstract Segment view (seg_id, length, elements) read through reference designators per the C17 contract; int() on texts of unknown length is an uninterpreted deterministic function with int(str(n))==n; sequence lemma instances (snoc / prefix-snoc) and the fold/filter-map homomorphism axioms (quantified, true of the python definitions). Whole-sequence claim (any non-nested arrangement draws an error) is composed informally from the per-step obligations (DESIGN 5 C04). Known finding K3 (misplaced HEADERS draw no error) is excluded and listed.',
   ref='4 C04'),
 'C11': dict(level='proof', technique='contract-based deductive verification (pyvc): inductive read-back invariant over a ghost output log (seq_fold), z3/cvc5',
   text='X12Writer.Write and X12Writer.Close (with _popToLoop, _close_*, _write_segment, _write_isa_segment and X12Base._parse_segment inlined from the real source) are proved to preserve the invariant that the reader\'s own recount over everything written so far shows no envelope discrepancy and agrees with the writer\'s counters, that a trailer of kind K closes through K, that non-trailer segments are appended unchanged, and that Close from any reachable state leaves an empty stack and a clean read-back. Stack depth 0..3 is a complete case split for well-nested sequences.',
   note='Assumed contract: X12Writer._get_trailer_segment (depends on Segment text parsing, C01) - covered by a BOUNDED native stand-in (grid of delimiters/kinds/counts/ids), not proved. Output is modelled at the level of segment views: the text layer (format then parse) is C01. Trusted: semantics model, abstract Segment view, text-output model (write appends), fold axioms, int(str(n))==n.',
   ref='4 C11'),
 'C16': dict(level='other', technique='exhaustive ground evaluation of the representation invariants assumed by the other contracts, through the real loader',
   text='Every index entry, every map file and every one of the ~24k nodes of the shipped configuration is checked each run: files load, usages/repeats/positions/seq well formed, data elements and external code sets defined, same-position siblings distinguishable, index keys unambiguous, nodes addressable by their own path (getnodebypath / getnodebypath2), paths unique, explicit map directory == packaged resources.',
   note='Finite and exhaustive, no SMT: ground evaluation, not proof. Ten listed known findings (path addressing of elements/composites, 997 AK2 loop ids, duplicate CTX, overlapping qualifiers, 841 map, undefined data elements) are reported as KNOWN-FINDING with exact node counts; any node beyond them is a VIOLATION.',
   ref='4 C16'),
 'C18': dict(level='other', technique='modifies-frame / determinism obligations discharged by conservative syntactic analysis of the real AST (contract frames), differential native replay',
   text='For every function of the package: no write to module or class state, no mutation of module/class level mutables, no mutated (or escaping-and-mutated) mutable default argument, no result cache, time/random only in the three documented places, no set iteration order reaching a value, no reflection. One obligation per (rule, module); findings outside a reasoned allow-list refute it; hash-order findings are replayed natively under different PYTHONHASHSEED.',
   note='Syntactic and name based: sound only in the absence of reflection (checked) and conservative (false alarms possible, handled by the reasoned allow-list in contracts/frames.py). Does not prove semantic independence of histories; it proves the absence of the mechanisms by which one call could influence another.',
   ref='4 C18'),
 'C01': dict(level='proof', technique='contract-based deductive verification (pyvc) of Segment parse/format and the reader loop; bounded native differential for the raw tokeniser',
   text='Segment.__init__ is proved to split a segment text only at the given element/component separators (never inside an ISA) into exactly the character-for-character values (all texts up to 6 (quick) / 8 (thorough) characters, any characters, any one-character delimiters); Segment.format is proved equal to the trimmed joined text on all segment shapes up to 2/3 elements x 2 components with unconstrained values; X12Reader.__iter__ is proved to raise nothing but the documented X12Error for ANY raw line. Chunk independence, source kinds and the format/read round trip are covered by a BOUNDED native differential against an independent tokeniser.',
   note='RawX12File.__init__/__iter__ (nested loops over strings of unknown length behind an arbitrary stream) are NOT under a deductive contract: bounded stand-in only (fixtures x delimiters x line ends x perturbations incl. >8 KiB segments and empty segments x read chunkings). Segment parse proof is bounded in text length, format proof bounded in shape. The Segment constructor is used abstractly by the reader loop (assumed total).',
   ref='4 C01'),
 'C15': dict(level='proof', technique='contract-based deductive verification (pyvc): ghost error log, opaque spec functions, callee contracts from C13',
   text='element_if.is_valid (with _is_valid_code and _error inlined) is proved, for every element definition (usage, data element type/min/max, inline code list, external code set, pattern, position in a composite), every value of any length and every qualifier-selected format list of up to two entries, to report exactly the error codes the definition implies (1, 10, 4, 5, 6, 7, 8, 9) and to return False exactly when it reported one; contains_control_character is proved against the control-character set. Callers use IsValidDataType through its C13 contract.',
   note='Known finding K4 (a value with a control character gets code 6 only) excluded and listed. composite_if.is_valid and segment_if.is_valid are covered by a BOUNDED native stand-in on every segment node of shipped maps, not proved. Trusted: data element table and external code sets as deterministic functions (defined-ness: ground C16), str.replace(c, \'\') length/count facts, rstrip() as uninterpreted function, compiled element patterns abstract.',
   ref='4 C15'),
 'C17': dict(level='proof', technique='contract-based deductive verification (pyvc) with an exact ordered-choice model of the backtracking regex engine; exhaustive ground evaluation over shipped node paths',
   text='X12Path.__init__ is proved, for every text of up to 10 (quick) / 12 (thorough) characters, to print back exactly the well-formed paths of the documented grammar, to yield exactly the designator parts, and to raise X12PathError exactly for a qualifier / element index without segment id after loop ids (regex capture groups modelled exactly, no assumption about which match is returned). Segment.get_value and Segment.set are proved against the view laws (read-after-write, padding with empty positions, every other position unchanged, foreign segment id refused) on real Segment/Composite/Element object graphs of bounded shape. Every loop/segment path of every shipped map round-trips (ground, exhaustive).',
   note='Bounded in text length (paths) and in shape (segments up to 2/3 elements x 2 components, designators up to element 05 / component 4); values, delimiters and characters unconstrained. join-after-split identity of str.split/str.join is the trusted lemma L1/L2.',
   ref='4 C17'),
 'C19': dict(level='proof', technique='contract-based verification of the escaping function (SMT for len<=3 + kernel-checked Lean lemma for all lengths) and syntactic taint obligations on every write of the report',
   text='escape_html_chars is proved to be the character code & -> &amp;, blank -> &nbsp;, > -> &gt;, < -> &lt; (SMT, all strings up to 3 characters; Lean: the replace chain of the source is flatMap of that code for all lengths, its image holds no raw < or >). Every hole of every fd.write in error_html.py is a literal, an integer conversion or a value that went through escape_html_chars (one obligation per write site).',
   note='The replace chain is re-extracted from the source each run and compared with the chain the Lean theorem is about; python str.replace(one char) == flatMap is the trusted transcription. Taint analysis is syntactic. Document-level completeness (every segment once, errors next to their segment) is a BOUNDED native stand-in on fixtures with injected faults.',
   ref='4 C19'),
 'C08': dict(level='proof', technique='contract-based verification of the XML escaping functions (SMT + Lean); bounded native round trip',
   text='XMLWriter._escape_cont and _escape_attr are proved to be the XML character codes (SMT up to 3 characters, Lean lemma for all lengths). Loop nesting of x12xml_simple.seg and the XML->X12 inverse are covered by a BOUNDED native stand-in on fixtures (well-formedness, fresh element per repeated loop, segment-for-segment round trip with markup characters in the data).',
   note='Only the escaping layer is proved; x12xml_simple.seg stack discipline and xmlx12_simple.get_segment are not under contract (bounded stand-in). ElementTree is assumed to invert the escapes.',
   ref='4 C08'),
 'C05': dict(level='proof', technique='contract-based deductive verification (pyvc) of the error-tree counting and acknowledgement-code functions; bounded native stand-in for the document level',
   text='err_seg.err_count, err_st.err_count, err_st.close, err_gs._get_ack_code and err_gs.count_failed_st are proved against an executable recount of the error tree (own errors + segment errors + element errors; accepted exactly when no error is recorded at or below the set/group; failed-set count) on error trees of up to 2 children per level with unconstrained contents. That the overall verdict agrees with the acknowledgement (AK5/AK9/TA1 codes, AK9 totals equal to what the input held) is checked at document level by a BOUNDED native stand-in: fixtures x structural mutations x seeded mutations through the real pipeline.',
   note='Deductive core is thin: it carries the clause "ack code is a function of the recorded errors"; the clause "verdict False <=> something recorded / acknowledged" rests on the bounded pipeline stand-in (labelled bounded in the evidence, not counted in obligations). Error trees bounded in width (2 per level). Known finding K9 (AK903/AK904 count an unrecognised ST) listed.',
   ref='4 C05/C06/C07'),
 'C06': dict(level='proof', technique='contract on the 997 writer segment counter (pyvc) + exhaustive ground discharge over the map index + bounded native stand-in',
   text='error_997_visitor._write is proved to write the segment through the writer and to count it exactly once (SE01 of the acknowledgement is that counter). Ground, exhaustive: the GS08/ST01 the 997 and 999 writers emit resolve to an entry of the shipped map index for every index entry that can be acknowledged. BOUNDED native stand-in: on fixtures x mutations the acknowledgement produced by the real pipeline, read back by the real reader and validator, is one complete interchange without envelope errors, and the acknowledgement of a valid document reports acceptance.',
   note='Only the counter step is a deductive proof; well-nestedness of the emitted acknowledgement rests on the C11 writer proof (the visitors write through X12Writer) plus the bounded stand-in. The visit_* methods are not under contract. Known finding K10 (997 truncated after a segment without id) listed.',
   ref='4 C05/C06/C07'),
 'C07': dict(level='proof', technique='contract-based deductive verification (pyvc): exception-freedom contracts (raises = documented set) on the reader, envelope machine and element validator; bounded native stand-in for the whole pipeline',
   text='X12Reader.__iter__, X12Base._parse_segment, X12Reader._parse_segment, X12Reader.cleanup, IsValidDataType and element_if.is_valid are proved, for every state and every input in their domain, to raise nothing but the documented X12Error (engine-stop after ISA) - a Python exception anywhere in the body is an obligation. The whole pipeline (x12n_document with every sink combination) is run natively as a BOUNDED stand-in on fixtures x ~45 structural mutations x seeded mutations: no exception, verdict is a bool, every sink completes.',
   note='The map walker, error_handler visitors, segment_if/composite_if.is_valid and the sinks are not under a deductive contract: their exception-freedom is only bounded-checked. Known findings K8a/K8b (st_error/gs_error/footer with no open set or group) listed, keyed by stand-in signature.',
   ref='4 C05/C06/C07'),
 'C10': dict(level='proof', technique='contract-based deductive verification (pyvc) of the child-placement and cleanup functions and of Segment.get_value/set; bounded native stand-in for the tree API',
   text='X12DataNode._get_insert_idx is proved to return the position that keeps the children ordered by map position (first index whose child sorts after the new node, else append) and X12DataNode._cleanup to remove exactly the children flagged deleted, keeping the order of the rest (up to 4 children, arbitrary positions/flags). Segment.get_value/set carry read-after-write and frame (C17 contracts). The API laws (set_value then get_value, add_segment/add_loop placement and countability, delete_segment/delete_node exactness, untouched segments unchanged, format order) are checked by a BOUNDED native stand-in on fixture trees x seeded call sequences.',
   note='X12ContextReader.iter_segments, add_segment, add_loop, delete_* themselves are not under a deductive contract (they interleave the map walker): bounded stand-in only. Child lists bounded to 4.',
   ref='4 C10'),
 'C12': dict(level='proof', technique='contract-based deductive verification (pyvc) with symbolic delimiters + delimiter-read frame obligations (syntactic) + bounded native re-encoding differential',
   text='Segment.__init__ and Segment.format are proved against the parse/format specs with SYMBOLIC one-character element, component and segment delimiters (texts up to 6/8 characters, shapes up to 2/3 x 2): the parsed view depends on the delimiters only through where the text is split, and format(parse(t)) uses only the delimiters passed in. Frame obligations (one per module): outside the tokeniser, the segment classes and the writers no function reads a delimiter attribute or compares a value against a literal delimiter. BOUNDED stand-in: fixtures re-encoded under other delimiter triples yield the same verdict, the same errors and the same acknowledgement modulo encoding.',
   note='Delimiter independence of validation as a whole is composed informally: views are delimiter-free (proved, bounded in length/shape) + nothing downstream reads a delimiter (syntactic frame). Known findings K4b (element_if.is_valid formats a composite for its error message using the input separator) and K11 (same value echoed into the acknowledgement) listed. Repetition separator of 5010 is read by the reader only (frame).',
   ref='4 C01/C12'),
}
NA = [
  {"property_id": "C02", "reason": "completeness of the map walker over the language generated by each map: no per-function contract within reach states 'conformant document' without restating the walker (DESIGN.md section 6)"},
  {"property_id": "C03", "reason": "whole-walk localisation statement over documents x maps; element-level fault kinds are decided under C13/C14/C15 (DESIGN.md section 6)"},
  {"property_id": "C09", "reason": "iter_segments interleaves the map walker with tree construction; no function-level contract within reach states the partition without restating the walker. A bounded partition check runs inside the C10 stand-in (it found the defect fixed in de40e6e) but is not a deductive decision, so nothing is claimed (DESIGN.md section 6)"},
  {"property_id": "C20", "reason": "x12norm.main is argparse/glob/tempfile glue around X12Reader; the content/idempotence/count-repair clauses are whole-file statements through the raw tokeniser, which is outside the verifier's reach. A bounded native check exists (contracts/rawx12file.py:bounded_normaliser, found the defect fixed in 094a651) but is not registered (DESIGN.md section 6)"},
]
import props
checks = []
for pid in sorted(props.PROPS):
    if pid not in TEXT: continue
    t = TEXT[pid]
    checks.append({
      "property_id": pid,
      "quick_cmd": "./check %s --tier quick" % pid,
      "thorough_cmd": "./check %s --tier thorough" % pid,
      "evidence_file": "evidence/%s.json" % pid,
      "replay_cmd_template": "./check %s --replay {path}" % pid,
      "engine": "pyvc",
      "level_claimed": {"category": t['level'], "text": t['text'], "design_ref": t['ref']},
      "level_note": t['note'],
      "technique": t['technique'],
    })
claimed = {c['property_id'] for c in checks}
pending = ['C%02d' % i for i in range(1, 21) if 'C%02d' % i not in claimed and 'C%02d' % i not in {n['property_id'] for n in NA}]
na = list(NA) + [{"property_id": p, "reason": "not yet claimed: contracts for this property are still being built in this session (see DESIGN.md section 9); no check is registered so nothing is claimed"} for p in pending]
m = {
 "version": 1,
 "setup_cmd": "true",
 "hooks": {"guard": "PYX12_VERIF", "enable": "no source hooks: contracts are sidecar files keyed by qualified name; /repo source is re-read and re-hashed on every run", "baseline_off_cmd": "cd /repo && /venv/bin/python -m pytest -ra -q -p no:cacheprovider --timeout=900 --continue-on-collection-errors", "source_commits": [], "add_only": True},
 "engines": [{"name": "pyvc", "path": "pyvc/", "serves_properties": sorted(claimed), "kind_free_text": "contract-based deductive verifier for a Python subset: ast -> path-wise verification conditions -> z3 5.1 (API) / cvc5 1.0.3 (CLI); native replay of counter-models on the real code under /venv/bin/python"}],
 "checks": checks,
 "not_applicable": na,
 "notes": "exit codes of ./check: 0 held, 1 VIOLATION (replayed), 2 UNDECIDED (never reported as violation), 3 checker error. fix: commits in /repo are recorded in known_findings.json under 'fixed'."
}
json.dump(m, open('/verif/MANIFEST.json', 'w'), indent=1)
import jsonschema
jsonschema.validate(m, json.load(open('/root/.vp/MANIFEST.schema.json')))
print('manifest ok: claimed', sorted(claimed))
