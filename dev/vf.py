"""dev helper: verify one function, optionally restricting cases:  vf.py <qual> [param=v1,v2 ...]"""
import sys, json, time, importlib, pkgutil
sys.path.insert(0,'/verif')
import contracts
for m in pkgutil.iter_modules(contracts.__path__):
    importlib.import_module('contracts.'+m.name)
from pyvc.contract import REGISTRY
from pyvc.verify import verify_function
q=sys.argv[1]
c=REGISTRY[q]
for a in sys.argv[2:]:
    k,v=a.split('=')
    if k=='split':
        c.split_len={kk:int(v) for kk in c.split_len}
    else:
        c.cases[k]=[(int(x) if x.isdigit() else x) for x in v.split(',')]
import os
r=verify_function(os.environ.get('REPO','/repo'),'/verif',q,{'procs':16})
print('error',r.error)
print('gen',r.gen_s,'solve',r.solve_s,'queries',r.queries,'paths',r.paths)
for k,v in r.obligations.items(): print(' ',v['status'],k,v['queries'],v['solver_s'])
bad=[c for c in r.covers if c['result']!='sat']
print('covers',len(r.covers),'bad',bad[:5])
for x in r.refuted[:10]: print('REFUTED',x['obligation'],'|',x['case'],'|',{k:v for k,v in (x['model'] or {}).items() if k!='__raw__'})
for x in r.undecided[:8]: print('UNDEC',x)
print('trusted',r.trusted); print('uses',r.used_contracts,'inlined',r.inlined)
