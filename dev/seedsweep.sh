#!/bin/bash
# dev: run every bounded stand-in under several seeds on the unchanged tree; print only failures
cd /verif
for seed in 1 2 3 7 42 12345 99991; do
  for r in $(cat dev/scratch/runners.txt); do
    /venv/bin/python pyvc/bounded_native.py /repo /verif $r $seed ${1:-quick} 2>/dev/null | python3 -c "
import json,sys
try:
    d=json.load(sys.stdin)
except Exception as e:
    print('$r seed=$seed CRASH'); sys.exit()
print('$r seed=$seed evals', d.get('evaluations'), 'failures', len(d.get('failures') or []))
for f in d.get('failures') or []: print('   ', f['detail'][:300], '|', str(f.get('input'))[:160])"
  done
done
