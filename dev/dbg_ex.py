import sys
sys.path.insert(0,'/verif')
import importlib, pkgutil, contracts
for m in pkgutil.iter_modules(contracts.__path__):
    importlib.import_module('contracts.'+m.name)
from pyvc.verify import *
from pyvc.interp import Interp
q=sys.argv[1]
I=Interp('/repo','/verif')
orig=I.ex
import ast
def ex(body, st, *a, **k):
    n=0
    for r in orig(body, st, *a, **k):
        n+=1
        yield r
    if isinstance(body,list) and body:
        print('ex', ast.unparse(body[0])[:70].replace('\n',' '), '... ->', n, file=sys.stderr)
I.ex=ex
oc=I.call_by_contract
def cbc(node, qual, *a, **k):
    n=0
    for r in oc(node, qual, *a, **k):
        n+=1
        print('  cbc', qual, type(r[1]).__name__, file=sys.stderr)
        yield r
    print('  cbc', qual, 'outs', n, file=sys.stderr)
I.call_by_contract=cbc
rep=FuncReport(q)
cov=generate(I,q,rep,{},None)
print(len(I.obligations), cov and [(c[0],c[1]) for c in cov])
