import sys, time
sys.path.insert(0,'/verif')
import importlib, pkgutil, contracts
for m in pkgutil.iter_modules(contracts.__path__):
    importlib.import_module('contracts.'+m.name)
from pyvc.verify import *
from pyvc.interp import Interp
import pyvc.solve as S
q=sys.argv[1]; idx=int(sys.argv[2]); tmo=int(sys.argv[3]) if len(sys.argv)>3 else 3000
import os; I=Interp(os.environ.get('REPO','/repo'),'/verif')
rep=FuncReport(q)
t=time.time()
cov=generate(I,q,rep,{},{idx})
print('gen',round(time.time()-t,2),'obligations',len(I.obligations),I.stats, 'axioms',len(I.axioms))
for k,o in enumerate(I.obligations):
    g=o.goal if not isinstance(o.goal,bool) else z3.BoolVal(o.goal)
    if z3.is_true(z3.simplify(g)): print(k,o.name[-50:],'trivial'); continue
    smt2,names=S.build_query(list(o.pc)+list(I.axioms),g,o.tag.get('probes'))
    qf,_=S.build_query(list(o.pc)+[a for a in I.axioms if not z3.is_quantifier(a)],g,o.tag.get('probes'),drop_quantified=True)
    t=time.time()
    r=S.solve_one((k,smt2,names,tmo,tmo,qf))
    print(k,o.name[-50:],S.verdict(r),r['z3'],r.get('cvc5'),r.get('weak'),round(time.time()-t,2), {kk:v for kk,v in (r['model'] or {}).items() if kk!='__raw__'} if S.verdict(r)=='sat' else '')
    if '--dump' in sys.argv and S.verdict(r)!='unsat': open('/verif/dev/q%d.smt2'%k,'w').write(smt2)
for a in I.axioms: print('AXIOM', a.sexpr()[:200].replace('\n',' '))
