/-
Lifting lemma for the HTML / XML escaping functions (C19, C08).

Model of python's `s.replace(c, w)` for a ONE-character pattern c:  every occurrence of c is
replaced by w, i.e. `rep c w s = s.flatMap (fun x => if x = c then w else [x])`.
(That this is what str.replace does for a single-character pattern is the trusted semantics;
the SMT side proves the same equations for all strings of length <= 3.)

Theorems: the replace chains of `escape_html_chars`, `XMLWriter._escape_cont` and
`XMLWriter._escape_attr` are character-wise codes (`flatMap code`), hence homomorphisms for ++,
and the image of the code contains no raw markup character.
-/
import Mathlib.Data.List.Basic

namespace Escape

def rep (c : Char) (w : List Char) (s : List Char) : List Char :=
  s.flatMap (fun x => if x = c then w else [x])

def htmlCode (x : Char) : List Char :=
  if x = '&' then "&amp;".toList else
  if x = ' ' then "&nbsp;".toList else
  if x = '>' then "&gt;".toList else
  if x = '<' then "&lt;".toList else [x]

def contCode (x : Char) : List Char :=
  if x = '&' then "&amp;".toList else
  if x = '<' then "&lt;".toList else
  if x = '>' then "&gt;".toList else [x]

def attrCode (x : Char) : List Char :=
  if x = '&' then "&amp;".toList else
  if x = '\'' then "&apos;".toList else
  if x = '<' then "&lt;".toList else
  if x = '>' then "&gt;".toList else [x]

theorem rep_rep (c d : Char) (w v : List Char) (s : List Char) :
    rep d v (rep c w s) = s.flatMap (fun x => rep d v (if x = c then w else [x])) := by
  unfold rep
  rw [List.flatMap_assoc]

/-- escape_html_chars: replace & then blank then > then < -/
theorem html_chain (s : List Char) :
    rep '<' "&lt;".toList (rep '>' "&gt;".toList (rep ' ' "&nbsp;".toList (rep '&' "&amp;".toList s)))
      = s.flatMap htmlCode := by
  unfold rep
  simp only [List.flatMap_assoc]
  congr 1
  funext x
  unfold htmlCode
  by_cases h1 : x = '&'
  · subst h1; decide
  · by_cases h2 : x = ' '
    · subst h2; decide
    · by_cases h3 : x = '>'
      · subst h3; decide
      · by_cases h4 : x = '<'
        · subst h4; decide
        · simp [h1, h2, h3, h4]

theorem cont_chain (s : List Char) :
    rep '>' "&gt;".toList (rep '<' "&lt;".toList (rep '&' "&amp;".toList s)) = s.flatMap contCode := by
  unfold rep
  simp only [List.flatMap_assoc]
  congr 1
  funext x
  unfold contCode
  by_cases h1 : x = '&'
  · subst h1; decide
  · by_cases h2 : x = '<'
    · subst h2; decide
    · by_cases h3 : x = '>'
      · subst h3; decide
      · simp [h1, h2, h3]

theorem attr_chain (s : List Char) :
    rep '>' "&gt;".toList (rep '<' "&lt;".toList (rep '\'' "&apos;".toList (rep '&' "&amp;".toList s)))
      = s.flatMap attrCode := by
  unfold rep
  simp only [List.flatMap_assoc]
  congr 1
  funext x
  unfold attrCode
  by_cases h1 : x = '&'
  · subst h1; decide
  · by_cases h2 : x = '\''
    · subst h2; decide
    · by_cases h3 : x = '<'
      · subst h3; decide
      · by_cases h4 : x = '>'
        · subst h4; decide
        · simp [h1, h2, h3, h4]

/-- a character-wise code is a homomorphism for concatenation -/
theorem code_append (f : Char → List Char) (a b : List Char) :
    (a ++ b).flatMap f = a.flatMap f ++ b.flatMap f := by
  simp [List.flatMap_append]

/-- L4: no raw '<' or '>' in the image of the HTML code -/
theorem html_no_markup (s : List Char) : '<' ∉ s.flatMap htmlCode ∧ '>' ∉ s.flatMap htmlCode := by
  constructor <;>
  · intro h
    rw [List.mem_flatMap] at h
    obtain ⟨x, _, hx⟩ := h
    unfold htmlCode at hx
    by_cases h1 : x = '&'
    · subst h1; revert hx; decide
    · by_cases h2 : x = ' '
      · subst h2; revert hx; decide
      · by_cases h3 : x = '>'
        · subst h3; revert hx; decide
        · by_cases h4 : x = '<'
          · subst h4; revert hx; decide
          · simp [h1, h2, h3, h4] at hx
            first | exact h4 hx.symm | exact h3 hx.symm | exact h4 hx | exact h3 hx

end Escape
