"""C01: the raw tokeniser (RawX12File.__init__/__iter__) reads through an arbitrary stream in a nested
loop over strings of unknown length; it is NOT under a deductive contract.  BOUNDED stand-in: native
differential against an independent tokeniser written from the statement, over seeded documents x
delimiter triples x line-break conventions x read chunkings x source kinds."""
from pyvc.contract import contract, set_scope
from pyvc.tys import *
from specs.tokens import *
from specs.prim import *

set_scope('contracts.rawx12file')

# --- deductive: the segment loop of the tokeniser, for EVERY text, every terminator and EVERY chunking of the stream -----
RAW = Obj('pyx12.rawx12file.RawX12File', fd=Obj('ext.Stream', rest=Str), buffer=Str, seg_term=StrN(1))

contract('pyx12.rawx12file.RawX12File.__iter__',
         self_type=RAW,
         returns=NoneT,
         requires=['len(self.seg_term) == 1', 'ord(self.seg_term) < 0x30000'],
         raises={},
         loops={0: dict(ghost={'tail': 'self.buffer + self.fd.rest'},
                        ghost_update={'tail': 'self.buffer + self.fd.rest'},
                        types={'tail': Str, 'line': Str, 'data': Str},
                        invariant=['len(self.seg_term) == 1', 'ord(self.seg_term) < 0x30000'],
                        step=['self.seg_term in tail',
                              'self.buffer + self.fd.rest == after_piece(tail, self.seg_term)',
                              "yields_in_iteration == (1 if token_of(tail, self.seg_term) != '' else 0)"],
                        modifies=['self.buffer', 'self.fd.rest', 'line', 'data']),
                1: dict(ghost={'t0': 'self.buffer + self.fd.rest'},
                        types={'data': Str},
                        invariant=['self.buffer + self.fd.rest == t0', 'len(self.seg_term) == 1', 'ord(self.seg_term) < 0x30000'],
                        modifies=['self.buffer', 'self.fd.rest', 'data'])},
         yield_ensures=["yielded_value == token_of(tail, self.seg_term)", "yielded_value != ''"],
         ensures=["self.fd.rest == ''", 'self.seg_term not in self.buffer'],
         options={'z3_share': 0.15},
         build='build_raw_iter',
         ghost={'replay_ensures': ['result == tokens(whole0, self.seg_term)'],
                'search': {'self/.buffer': ['', 'A', 'A~', '~', '\nA~', 'A~\n', '~~', ' A~'],
                           'self/.rest': ['', 'B~', '\nB~C~', '~', '\r\nB~', 'B~~C~\n', '\n'],
                           'self/.chunk': [1, 2, 8192]}},
         serves=['C01'],
         note='one outer iteration = one unfolding of specs.tokens.tokens on (buffer + undelivered text): it consumes exactly the first '
              'piece, yields exactly its token when that is not empty, whatever chunks read() delivers; the loop ends only when no '
              'terminator is left.  By induction over the iterations the yielded lines are tokens(whole text) for every chunking.')

RAW0 = Obj('pyx12.rawx12file.RawX12File')

contract('pyx12.rawx12file.RawX12File.__init__',
         self_type=RAW0,
         params={'fin': Obj('ext.Stream', rest=Str)},
         returns=NoneT,
         loops={0: dict(ghost={'w0': 'line + self.fd.rest'},
                        types={'line': Str, 'more': Str},
                        invariant=['line + self.fd.rest == w0', 'len(line) <= 106'],
                        modifies=['line', 'more', 'self.fd.rest'])},
         raises={'X12Error': "not (len(old(fin.rest)) >= 106 and old(fin.rest)[:3] == 'ISA' and old(fin.rest)[84:89] in ('00401', '00501'))"},
         ensures=['self.buffer + self.fd.rest == old(fin.rest)', 'len(old(fin.rest)) >= 106',
                  'len(old(fin.rest)) < 106 or self.seg_term == old(fin.rest)[105]',
                  'len(old(fin.rest)) < 106 or self.ele_term == old(fin.rest)[3]',
                  'len(old(fin.rest)) < 106 or self.subele_term == old(fin.rest)[104]',
                  "len(old(fin.rest)) < 106 or self.repetition_term == (old(fin.rest)[82] if old(fin.rest)[84:89] == '00501' else None)",
                  'self.icvn == old(fin.rest)[84:89]', 'len(self.seg_term) == 1'],
         options={'prune_rlimit': 100000, 'z3_share': 0.15},
         serves=['C01'],
         note='the delimiters are the characters at the fixed positions of the 106-character header of the WHOLE text, whatever chunks '
              'the stream delivers; nothing of the text is lost (buffer + undelivered text == whole text)')


def spec_tokens(text):
    """independent reading of the statement: the header fixes the delimiters; segments are the non-empty
    pieces between terminators with leading CR/LF dropped; elements/components split at the separators,
    never inside the ISA"""
    st, et, sub = text[105], text[3], text[104]
    out = []
    pieces = text.split(st)
    for p in pieces[:-1]:
        p = p.lstrip('\n\r')
        if p == '':
            continue
        p = p.lstrip(' ')
        fields = p.split(et)
        sid = fields[0]
        if sid == 'ISA':
            elems = [[f] for f in fields[1:]]
        else:
            elems = [f.split(sub) for f in fields[1:]]
        out.append((sid, elems))
    return out


def view_of(seg):
    return (seg.get_seg_id(), [[e.get_value() for e in c.elements] for c in seg.elements])


def bounded_tokenise(seed, tier):
    import io
    import os
    import random
    import tempfile
    import pyx12.x12file
    from pyx12.test.x12testdata import datafiles
    rnd = random.Random(seed)

    class Chunky(io.StringIO):
        """a text stream that returns fewer characters than asked for (never '' before the end)"""

        def __init__(self, text, sizes):
            io.StringIO.__init__(self, text)
            self.sizes = sizes
            self.k = 0

        def read(self, n=-1):
            lim = self.sizes[self.k % len(self.sizes)]
            self.k += 1
            if n is None or n < 0:
                return io.StringIO.read(self, n)
            return io.StringIO.read(self, max(1, min(n, lim)))

    docs = []
    for name in ('simple_837p', '834_lui_id', '835id', 'mult_isa'):
        if name in datafiles and 'source' in datafiles[name]:
            docs.append(datafiles[name]['source'])
    n = 0
    failures = []
    delim_sets = [('~', '*', ':'), ('\n', '|', '>'), ('!', '^', '+'), ('\x1c', '\x1d', '\x1f')]
    eols = ['', '\n', '\r\n', '\r']
    nvar = 3 if tier == 'quick' else 12
    for base in docs:
        base_tokens = None
        for (st, et, sub) in delim_sets:
            for eol in eols:
                if st in ('\n',) and eol:
                    continue
                for v in range(nvar):
                    # re-encode the document with other delimiters / line ends, and perturb it
                    segs = [s for s in base.replace('\n', '').replace('\r', '').split('~') if s != '']
                    if v % 3 == 1:
                        k = rnd.choice([i for i in range(1, len(segs)) if not segs[i].startswith('ISA')])   # an ISA of 17 elements is (documented) X12Error
                        segs[k] = segs[k] + '*' + 'X' * rnd.choice([8100, 8192, 20000])     # straddles the read buffer
                    text = ''
                    for i, s in enumerate(segs):
                        s2 = s.replace('*', '\0').replace(':', '\1') if not s.startswith('ISA') else s.replace('*', '\0')
                        if s.startswith('ISA'):
                            s2 = s2[:-1] + sub
                        s2 = s2.replace('\0', et).replace('\1', sub)
                        text += s2 + st + eol
                        if v % 3 == 2 and i == len(segs) // 2:
                            text += st + eol                      # an empty segment
                    want = spec_tokens(text)
                    sizes_list = [[8192], [1], [50], [7, 106, 3], [rnd.randrange(1, 300) for _ in range(7)]]
                    for sizes in sizes_list[:3 if tier == 'quick' else 5]:
                        n += 1
                        try:
                            got = [view_of(s) for s in pyx12.x12file.X12Reader(Chunky(text, sizes))]
                        except Exception as e:
                            got = 'raised %s: %s' % (type(e).__name__, e)
                        if got != want and len(failures) < 5:
                            failures.append({'input': {'delimiters': [st, et, sub], 'eol': eol, 'variant': v, 'read_sizes': sizes[:7],
                                                       'text_head': text[:140]},
                                             'detail': 'segments differ from the statement\'s tokenisation' if not isinstance(got, str) else got})
                    # source kind: path
                    if v == 0:
                        n += 1
                        fd, p = tempfile.mkstemp()
                        os.write(fd, text.encode('ascii'))
                        os.close(fd)
                        try:
                            if eol == '\r':
                                pass       # text-mode open() translates a lone CR: excluded from the path comparison
                            else:
                                got = [view_of(s) for s in pyx12.x12file.X12Reader(p)]
                                w2 = spec_tokens(text.replace('\r\n', '\n'))
                                if got != w2 and len(failures) < 5:
                                    failures.append({'input': {'delimiters': [st, et, sub], 'eol': eol, 'source': 'path'}, 'detail': 'path source differs from stream source'})
                        except Exception as e:
                            if len(failures) < 5:
                                failures.append({'input': {'source': 'path'}, 'detail': 'raised %s: %s' % (type(e).__name__, e)})
                        finally:
                            os.unlink(p)
                    # format and read again
                    if v == 0 and not isinstance(want, str):
                        n += 1
                        try:
                            r1 = list(pyx12.x12file.X12Reader(io.StringIO(text)))
                            text2 = ''.join(s.format(st, et, sub) for s in r1)
                            r2 = [view_of(s) for s in pyx12.x12file.X12Reader(io.StringIO(text2))]
                            if r2 != [view_of(s) for s in r1] and len(failures) < 5:
                                failures.append({'input': {'delimiters': [st, et, sub], 'eol': eol}, 'detail': 'format then read again changes the segments'})
                        except Exception as e:
                            if len(failures) < 5:
                                failures.append({'input': {'roundtrip': True}, 'detail': 'raised %s: %s' % (type(e).__name__, e)})
    return {'function': 'pyx12.rawx12file.RawX12File.__init__/__iter__ (+ X12Reader source selection, format/read round trip)',
            'evaluations': n, 'bound': '%d fixture documents x 4 delimiter triples x 4 line-end conventions x %d perturbations x read chunkings, seed %d' % (len(docs), nvar, seed),
            'failures': failures}


def bounded_normaliser(seed, tier):
    """BOUNDED native stand-in for C20 (x12norm.main: argparse / glob / tempfile, outside the verified subset):
    content preservation, idempotence, count repair, all output destinations"""
    import io
    import os
    import sys
    import tempfile
    import contextlib
    import pyx12.scripts.x12norm as norm
    import pyx12.x12file
    from pyx12.test.x12testdata import datafiles
    n = 0
    failures = []

    def run(argv):
        old = sys.argv
        sys.argv = ['x12norm'] + argv
        buf = io.StringIO()
        try:
            with contextlib.redirect_stdout(buf):
                norm.main()
        finally:
            sys.argv = old
        return buf.getvalue()

    def segs(text):
        return [s.format('~', '*', ':') for s in pyx12.x12file.X12Reader(io.StringIO(text))]

    def env_errors(text):
        r = pyx12.x12file.X12Reader(io.StringIO(text))
        errs = []
        for s in r:
            errs += r.pop_errors()
        r.cleanup()
        errs += r.pop_errors()
        return [(e[0], e[1]) for e in errs if (e[0], e[1]) in (('isa', '021'), ('gs', '5'), ('st', '4'), ('seg', 'HL1'))]
    for name in ('simple_837p', '834_lui_id', '835id'):
        src = datafiles[name]['source']
        d = tempfile.mkdtemp()
        try:
            fin = os.path.join(d, 'in.x12')
            open(fin, 'w').write(src)
            for opts in ([], ['-e'], ['-f'], ['-e', '-f']):
                n += 1
                out1 = run(opts + [fin])
                if segs(out1) != segs(src):
                    failures.append({'input': {'fixture': name, 'options': opts}, 'detail': 'C20: normalised output has different segments'})
                f2 = os.path.join(d, 'out.x12')
                run(opts + ['-o', f2, fin])
                if open(f2).read() != out1:
                    failures.append({'input': {'fixture': name, 'options': opts + ['-o']}, 'detail': 'C20: -o file differs from stdout output (%d vs %d chars)' % (len(open(f2).read()), len(out1))})
                out2 = run(opts + [f2])
                if out2 != out1:
                    failures.append({'input': {'fixture': name, 'options': opts}, 'detail': 'C20: normalising the output again changes it'})
            # count repair
            bad = src.replace('\nSE*', '\nSE*9', 1).replace('\nGE*', '\nGE*7', 1).replace('\nIEA*', '\nIEA*5', 1)
            open(fin, 'w').write(bad)
            n += 1
            fixed = run(['-f', fin])
            if env_errors(bad) and env_errors(fixed):
                failures.append({'input': {'fixture': name, 'options': ['-f']}, 'detail': 'C20: count defects remain after --fixcounting: %r' % env_errors(fixed)})
            f3 = os.path.join(d, 'inplace.x12')
            open(f3, 'w').write(src)
            n += 1
            run(['-i', '-e', f3])
            if segs(open(f3).read()) != segs(src):
                failures.append({'input': {'fixture': name, 'options': ['-i', '-e']}, 'detail': 'C20: in-place normalisation changed the segments'})
        except Exception as e:
            failures.append({'input': {'fixture': name}, 'detail': 'C20: raised %s: %s' % (type(e).__name__, e)})
        finally:
            for f in os.listdir(d):
                os.unlink(os.path.join(d, f))
            os.rmdir(d)
    return {'function': 'pyx12.scripts.x12norm.main', 'evaluations': n, 'bound': '3 fixtures x option combinations (eol, fixcounting, -o, -i)', 'failures': failures[:8]}


# ---- native replay for the tokeniser loop: a real RawX12File over a stream that delivers `rest` in chunks ------------------
class _ChunkedStream(object):
    def __init__(self, text, chunk):
        self.rest, self.chunk = text, max(1, int(chunk))

    def read(self, n=-1):
        k = self.chunk if n is None or n < 0 else min(n, self.chunk)
        d, self.rest = self.rest[:k], self.rest[k:]
        return d


def build_raw_iter(args):
    import pyx12.rawx12file
    st = args.get('self', {}) or {}
    g = lambda k, d=None: st.get('.' + k, d)
    term = g('seg_term') or '~'
    if not isinstance(term, str) or len(term) != 1:
        term = '~'
    buf = g('buffer') if isinstance(g('buffer'), str) else ''
    rest = g('rest') if isinstance(g('rest'), str) else (g('fd.rest') if isinstance(g('fd.rest'), str) else '')
    raw = pyx12.rawx12file.RawX12File.__new__(pyx12.rawx12file.RawX12File)
    raw.buffer, raw.seg_term = buf.replace('~', term), term
    raw.fd = _ChunkedStream(rest.replace('~', term), g('chunk', 3) or 3)
    return (lambda: pyx12.rawx12file.RawX12File.__iter__(raw)), (), {'self': raw, 'whole0': raw.buffer + raw.fd.rest}
