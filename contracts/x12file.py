"""Contracts for pyx12/x12file.py: envelope state machine of the reader (C04) and the writer (C11)."""
from pyvc.contract import contract, set_scope, Const, abstract_type
from pyvc.tys import *
from specs.envelope import *
from specs.prim import *
import contracts.syntax      # abstract Segment

set_scope('contracts.x12file')

LOOP = Tup(Str, Opt(Str))
ERR = Tup(Str, Str, Str, Opt(Str), Opt(Int))

# ---- native replay helpers (run under /venv/bin/python; no z3 here) -------------------
def _opt(v):
    """model value of an Optional: 'none_...' | [x]"""
    if isinstance(v, str) and v.startswith('none_'):
        return None
    if isinstance(v, list) and len(v) == 1:
        return v[0]
    return v


def _lazy(probes, name):
    """value of a lazy choice probe (name?a = condition, ?A / ?B alternatives)"""
    if name in probes:
        return probes[name]
    if name + '?a' in probes:
        return _lazy(probes, name + '?A') if probes[name + '?a'] else _lazy(probes, name + '?B')
    return None


SEG_PROBES = {
    'seg.id': 'seg_data.get_seg_id()', 'seg.len': 'len(seg_data)',
    'seg.01': "seg_data.get_value('01')", 'seg.02': "seg_data.get_value('02')", 'seg.06': "seg_data.get_value('06')",
    'seg.13': "seg_data.get_value('ISA13')", 'seg.hl01': "seg_data.get_value('HL01')", 'seg.hl02': "seg_data.get_value('HL02')",
    'seg.lx01': "seg_data.get_value('LX01')", 'seg.iea01': "seg_data.get_value('IEA01')", 'seg.iea02': "seg_data.get_value('IEA02')",
    'seg.ge01': "seg_data.get_value('GE01')", 'seg.ge02': "seg_data.get_value('GE02')", 'seg.se01': "seg_data.get_value('SE01')",
    'seg.se02': "seg_data.get_value('SE02')", 'seg.gs06': "seg_data.get_value('GS06')", 'seg.st02': "seg_data.get_value('ST02')",
}


def native_segment(probes):
    import pyx12.segment
    sid = _lazy(probes, 'seg.id')
    n = probes.get('seg.len', 0) or 0
    n = max(0, min(int(n), 20))
    vals = {}
    named = {'ISA': {13: 'seg.13'}, 'GS': {6: 'seg.gs06'}, 'ST': {2: 'seg.st02'}, 'HL': {1: 'seg.hl01', 2: 'seg.hl02'},
             'LX': {1: 'seg.lx01'}, 'IEA': {1: 'seg.iea01', 2: 'seg.iea02'}, 'GE': {1: 'seg.ge01', 2: 'seg.ge02'},
             'SE': {1: 'seg.se01', 2: 'seg.se02'}}.get(sid, {})
    for pos, pn in named.items():
        v = _lazy(probes, pn)
        if v is not None:
            vals[pos] = v
            n = max(n, pos)
        # an absent (None) value needs a segment shorter than pos: only possible when nothing later is set
    elems = [vals.get(k, 'x' if k not in named else '') for k in range(1, n + 1)]
    text = (sid if sid is not None else '') + ''.join('*' + e for e in elems)
    return pyx12.segment.Segment(text, '~', '*', ':')


def native_reader(state, cls='X12Reader'):
    import pyx12.x12file
    K = getattr(pyx12.x12file, cls)
    r = K.__new__(K)
    pyx12.x12file.X12Base.__init__(r)
    g = lambda k, d=None: state.get('.' + k, d)
    r.loops = [(x[0], _opt(x[1])) for x in (g('loops') or [])]
    r.hl_stack = list(g('hl_stack') or [])
    for k in ('gs_count', 'st_count', 'hl_count', 'seg_count', 'cur_line', 'lx_count'):
        setattr(r, k, g(k, 0))
    r.isa_ids = [_opt(x) for x in (g('isa_ids') or [])]
    r.gs_ids = [_opt(x) for x in (g('gs_ids') or [])]
    r.st_ids = [_opt(x) for x in (g('st_ids') or [])]
    r.check_837_lx = bool(g('check_837_lx', False))
    r.err_list = [(e[0], e[1], e[2], _opt(e[3]), _opt(e[4])) for e in (g('err_list') or [])]
    return r


def build_reader_parse_segment(args):
    import pyx12.x12file
    r = native_reader(args.get('self', {}))
    seg = native_segment(args.get('__probes__', {}))
    return (lambda: pyx12.x12file.X12Reader._parse_segment(r, seg)), (), {'self': r, 'seg_data': seg}


def build_base_parse_segment(args):
    import pyx12.x12file
    r = native_reader(args.get('self', {}))
    seg = native_segment(args.get('__probes__', {}))
    return (lambda: pyx12.x12file.X12Base._parse_segment(r, seg)), (), {'self': r, 'seg_data': seg}


# reader/writer state that _parse_segment touches.  err_list starts empty in the contract:
# the function only ever appends to it (frame: no read of err_list in _parse_segment).
def base_state(cls, **extra):
    f = dict(err_list=ListOf(ERR), loops=ListOf(LOOP), hl_stack=ListOf(Int), gs_count=Int, st_count=Int,
             hl_count=Int, seg_count=Int, cur_line=Int, isa_ids=ListOf(Opt(Str)), gs_ids=ListOf(Opt(Str)),
             st_ids=ListOf(Opt(Str)), lx_count=Int, check_837_lx=Bool, isa_usage=Opt(Str))
    f.update(extra)
    return Obj(cls, **f)


READER = base_state('pyx12.x12file.X12Reader')

_IDS = ["seg_data.get_seg_id() == '%s'" % k for k in ('ISA', 'GS', 'ST', 'HL', 'CLM', 'LX', 'IEA', 'GE', 'SE')] + \
       ["seg_data.get_seg_id() not in ('ISA', 'GS', 'ST', 'HL', 'CLM', 'LX', 'IEA', 'GE', 'SE')"]
# complete case split (proved exhaustive on every run): segment id x emptiness x id shape
SEG_SPLIT = ['%s and %sseg_data.is_empty() and %sseg_data.is_seg_id_valid()' % (i, e, v)
             for i in _IDS for e in ('', 'not ') for v in ('', 'not ')]

OLD_ARGS = ('old(self.loops), old(self.isa_ids), old(self.gs_ids), old(self.st_ids), old(self.gs_count), '
            'old(self.st_count), old(self.seg_count), old(self.hl_count), old(self.lx_count), old(self.check_837_lx)')
NEW_STATE = ('(self.loops, self.isa_ids, self.gs_ids, self.st_ids, self.gs_count, self.st_count, self.seg_count, '
             'self.hl_count, self.lx_count)')
HL_POST = ("hl_chain_after(old(self.hl_stack), self.hl_stack, seg_data, self.hl_count) if seg_data.get_seg_id() == 'HL' "
           "else self.hl_stack == ([] if seg_data.get_seg_id() == 'ST' else old(self.hl_stack))")
HEADER_POST = [
    NEW_STATE + ' == state_of(header_step(' + OLD_ARGS + ', seg_data))',
    'envelope_codes(self.err_list) == envelope_codes(old(self.err_list)) + '
    'with_hl2(header_step(' + OLD_ARGS + ', seg_data), old(self.hl_stack), seg_data)[9]',
    HL_POST,
    'self.cur_line == old(self.cur_line) + 1',
    'self.check_837_lx == old(self.check_837_lx)',
]

contract('pyx12.x12file.X12Base._parse_segment',
         self_type=READER,
         params={'seg_data': Opaque('Segment')},
         returns=NoneT,
         requires=['self.hl_count >= 0', 'self.lx_count >= 0', 'self.gs_count >= 0', 'self.st_count >= 0', 'self.seg_count >= 0'],
         ensures=HEADER_POST,
         raises={'X12Error': "seg_data.get_seg_id() == 'ISA' and len(seg_data) != 16"},
         modifies=['err_list', 'loops', 'hl_stack', 'gs_count', 'st_count', 'hl_count', 'seg_count', 'cur_line',
                   'isa_ids', 'gs_ids', 'st_ids', 'lx_count', 'isa_usage'],
         loops={0: dict(ghost={'hl0': 'self.hl_stack', 'rem': '[]'},
                        ghost_update={'rem': '[self.hl_stack[-1]] + rem'},
                        types={'rem': ListOf(Int)},
                        invariant=['hl0 == self.hl_stack + rem',
                                   'hl_parent not in rem'],
                        modifies=['self.hl_stack'],
                        decreases='len(self.hl_stack)')},
         split_on=_IDS,
         ghost={'probes': SEG_PROBES}, build='build_base_parse_segment',
         serves=['C04', 'C07', 'C11'])

SID = 'seg_data.get_seg_id()'
R_ARGS = OLD_ARGS + ', old(self.hl_stack), seg_data'

contract('pyx12.x12file.X12Reader._parse_segment',
         self_type=READER,
         params={'seg_data': Opaque('Segment')},
         returns=NoneT,
         requires=['self.hl_count >= 0', 'self.lx_count >= 0', 'self.gs_count >= 0', 'self.st_count >= 0', 'self.seg_count >= 0'],
         ensures=[
             # (P) exactness on properly placed segments: state and reported envelope errors are the recount's
             '(not proper_trailer(old(self.loops), ' + SID + ')) or ' + NEW_STATE + ' == state_of(reader_step(' + R_ARGS + '))',
             '(not proper_trailer(old(self.loops), ' + SID + ')) or envelope_codes(self.err_list) == '
             'envelope_codes(old(self.err_list)) + reader_step(' + R_ARGS + ')[9]',
             HL_POST,
             'self.cur_line == old(self.cur_line) + 1',
             # (I) a misplaced trailer / header always draws an envelope error at that very segment
             'implies(not proper_trailer(old(self.loops), ' + SID + '), envelope_codes(self.err_list) != envelope_codes(old(self.err_list)))',
             'implies(not proper_header(old(self.loops), ' + SID + '), envelope_codes(self.err_list) != envelope_codes(old(self.err_list)))',
             # counters stay non-negative (inductive shape invariant)
             'self.hl_count >= 0 and self.lx_count >= 0 and self.gs_count >= 0 and self.st_count >= 0 and self.seg_count >= 0',
         ],
         raises={'X12Error': "seg_data.get_seg_id() == 'ISA' and len(seg_data) != 16"},
         modifies=['err_list', 'loops', 'hl_stack', 'gs_count', 'st_count', 'hl_count', 'seg_count', 'cur_line',
                   'isa_ids', 'gs_ids', 'st_ids', 'lx_count', 'isa_usage'],
         split_on=_IDS,
         ghost={'probes': SEG_PROBES}, build='build_reader_parse_segment',
         serves=['C04', 'C07'])




contract('pyx12.x12file.X12Reader.cleanup',
         self_type=READER,
         returns=NoneT,
         ensures=['envelope_codes(self.err_list) == envelope_codes(old(self.err_list)) + end_errors(self.loops)',
                  'self.loops == old(self.loops)'],
         raises={}, build='build_reader_cleanup',
         ghost={'search': {'self/.loops': [[['ISA', ['1']]], [['ISA', ['1']], ['GS', ['2']]], [['ISA', ['1']], ['GS', ['2']], ['ST', ['3']]], [['ST', ['9']]], []],
                           'self/.err_list': [[]]}},
         loops={0: dict(index='k', ghost={'errs0': 'self.err_list'},
                        invariant=['envelope_codes(self.err_list) == envelope_codes(errs0) + end_errors(self.loops[:k])'],
                        modifies=['self.err_list', 'err_str'], types={'err_str': Str})},
         serves=['C04'])




# ---------------------------------------------------------------------------------------
# C11: X12Writer
from specs.writer import *
from pyvc.contract import FOLD_TYPES

ENTRY = Tup(Opaque('Segment'), Str, Str, Str, Str)
FOLD_TYPES['wstep'] = (Tup(ListOf(LOOP), Int, Int, Int, Bool), ENTRY)


def writer_state(depth):
    return base_state('pyx12.x12file.X12Writer', loops=ListLit(*([LOOP] * depth)),
                      fd_out=Obj('ext.TextOut', log=ListOf(ENTRY)),
                      seg_term=Str, ele_term=Str, subele_term=Str, repetition_term=Str, eol=Str)


W_SEARCH = {'self/.gs_count': [1, 2, 3], 'self/.st_count': [0, 1, 2, 3], 'self/.seg_count': [1, 2, 4]}
W_INV = 'winv(readback(self.fd_out.log), self.loops, self.gs_count, self.st_count, self.seg_count)'
W_REQ = ['wf_stack(self.loops)', 'ids_present(self.loops)', W_INV,
         'self.hl_count >= 0 and self.lx_count >= 0 and self.gs_count >= 0 and self.st_count >= 0 and self.seg_count >= 0']

contract('pyx12.x12file.X12Writer._get_trailer_segment',
         self_type=writer_state(0),
         params={'seg_id': Str, 'count': Int, 'id': Opt(Str)},
         returns=MutOpaque('Segment'),
         requires=['id is not None'],
         ensures=['result.get_seg_id() == seg_id', "result.get_value('01') == str(count)", "result.get_value('02') == id",
                  'len(result) == 2'],
         raises={},
         assume_only=True,
         note='assumed here: follows from the parse contract of Segment.__init__ (C01) for a text '
              '<seg_id><sep><count><sep><id> whose id is free of the writer delimiters')

contract('pyx12.x12file.X12Writer.Write',
         type_cases=[('depth %d' % d, {'self': writer_state(d)}) for d in range(4)],
         params={'seg_data': MutOpaque('Segment')},
         returns=NoneT,
         requires=W_REQ + ['header_ok(self.loops, seg_data)'],
         ensures=['wf_stack(self.loops)', 'ids_present(self.loops)', W_INV,
                  'closes_through(self.loops, seg_data.get_seg_id())',
                  "seg_data.get_seg_id() not in ('IEA', 'GE', 'SE') or self.loops == stack_after_trailer(old(self.loops), seg_data.get_seg_id())",
                  "seg_data.get_seg_id() != 'ISA' or (seg_data.get_value('ISA16') == self.subele_term and "
                  "(old(seg_data.get_value('ISA12')) != '00501' or seg_data.get_value('ISA11') == self.repetition_term) and "
                  "seg_data.get_value('ISA13') == old(seg_data.get_value('ISA13')))",
                  "seg_data.get_seg_id() in ('IEA', 'GE', 'SE') or self.fd_out.log == old(self.fd_out.log) + [entry_of(seg_data, self)]",
                  "seg_data.get_seg_id() in ('ISA', 'LX') or seg_val(seg_data) == old(seg_val(seg_data))",
                  'self.hl_count >= 0 and self.lx_count >= 0 and self.gs_count >= 0 and self.st_count >= 0 and self.seg_count >= 0'],
         raises={'X12Error': "seg_data.get_seg_id() == 'ISA' and len(seg_data) != 16"},
         inline=['pyx12.x12file.X12Base._parse_segment'],
         split_on=_IDS,
         mutates=['seg_data'],
         ghost={'probes': SEG_PROBES, 'search': W_SEARCH}, build='build_writer_write',
         serves=['C11'])

contract('pyx12.x12file.X12Writer.Close',
         type_cases=[('depth %d' % d, {'self': writer_state(d)}) for d in range(4)],
         returns=NoneT,
         requires=W_REQ,
         ensures=['len(self.loops) == 0', 'readback(self.fd_out.log)[4]', 'len(readback(self.fd_out.log)[0]) == 0'],
         raises={},
         build='build_writer_close', ghost={'search': W_SEARCH},
         serves=['C11'])


# ---- native replay for the writer: the state is reached through a real write history ----
class _WProxy(object):
    """what the contract calls `self`: the real writer + its output read back as segments"""

    def __init__(self, w, buf):
        self._w, self._buf = w, buf

    def __getattr__(self, k):
        return getattr(self._w, k)

    @property
    def fd_out(self):
        return self

    @property
    def log(self):
        import io
        import pyx12.segment
        w = self._w
        out = []
        text = self._buf.getvalue()
        for line in text.split(w.seg_term):
            line = line.lstrip('\n\r')
            if line == '':
                continue
            seg = pyx12.segment.Segment(line, w.seg_term, w.ele_term, w.subele_term)
            out.append((seg, w.seg_term, w.ele_term, w.subele_term, w.eol))
        return out


def native_writer(state):
    import io
    import pyx12.x12file
    import pyx12.segment
    g = lambda k, d=None: state.get('.' + k, d)
    depth = g('loops.__len__', 0) or 0
    ids = []
    for k in range(depth):
        a = g('loops[%d][1]?a' % k)
        v = g('loops[%d][1]?B' % k) if a is False else g('loops[%d][1]' % k)
        ids.append(v if isinstance(v, str) and v else '%d' % (k + 1))
    st, et, sub = (g('seg_term') or '~')[:1] or '~', (g('ele_term') or '*')[:1] or '*', (g('subele_term') or ':')[:1] or ':'
    if len({st, et, sub}) < 3 or any(c.isalnum() or c.isspace() for c in (st, et, sub)):
        st, et, sub = '~', '*', ':'
    eol = g('eol') or ''
    if any(c in eol for c in (st, et, sub)) or len(eol) > 2:
        eol = '\n'
    buf = io.StringIO()
    w = pyx12.x12file.X12Writer(buf, st, et, sub, eol, '^')
    S = lambda t: pyx12.segment.Segment(t.replace('*', et), st, et, sub)
    ng, ns, nseg = max(int(g('gs_count', 0) or 0), 0), max(int(g('st_count', 0) or 0), 0), max(int(g('seg_count', 0) or 0), 0)
    ng, ns, nseg = min(ng, 4), min(ns, 4), min(nseg, 6)
    if depth >= 1:
        w.Write(S('ISA*00*          *00*          *ZZ*SENDER         *ZZ*RECEIVER       *040608*1333*U*00401*%s*0*P*:' % ids[0]))
        for k in range(max(ng - (1 if depth >= 2 else 0), 0)):
            w.Write(S('GS*HC*A*B*20040608*1333*9%d*X*004010X098A1' % k))
            w.Write(S('GE*0*9%d' % k))
    if depth >= 2:
        w.Write(S('GS*HC*A*B*20040608*1333*%s*X*004010X098A1' % ids[1]))
        for k in range(max(ns - (1 if depth >= 3 else 0), 0)):
            w.Write(S('ST*837*8%d' % k))
            w.Write(S('SE*0*8%d' % k))
    if depth >= 3:
        w.Write(S('ST*837*%s' % ids[2]))
        for k in range(max(nseg - 1, 0)):
            w.Write(S('REF*87*004010X098A1'))
    return w, buf


def _native_seg_from_probes(pr, w):
    import pyx12.segment
    seg = native_segment(pr)
    text = seg.format('~', '*', ':')[:-1].replace('*', w.ele_term)
    return pyx12.segment.Segment(text, w.seg_term, w.ele_term, w.subele_term)


def build_writer_write(args):
    w, buf = native_writer(args.get('self', {}))
    seg = _native_seg_from_probes(args.get('__probes__', {}), w)
    px = _WProxy(w, buf)
    return (lambda: w.Write(seg)), (), {'self': px, 'seg_data': seg}


def build_writer_close(args):
    w, buf = native_writer(args.get('self', {}))
    px = _WProxy(w, buf)
    return (lambda: w.Close()), (), {'self': px}


def bounded_get_trailer_segment(seed, tier):
    """native check of the ASSUMED contract of X12Writer._get_trailer_segment over a grid of
    delimiters x kinds x counts x ids"""
    import io
    import itertools
    import pyx12.x12file
    delims = [('~', '*', ':'), ('!', '|', '>'), ('\n', '\t', '\\'), ('\x1c', '\x1d', '\x1f'), ('~', '+', '^'), ('$', '*', '|')]
    kinds = ['IEA', 'GE', 'SE']
    counts = [0, 1, 2, 9, 10, 99, 100, 12345]
    ids = ['1', '0001', '000010121', 'A17', 'X Y', '17-3', 'a.b']
    n = 0
    failures = []
    for (st, et, sub), kind, cnt, ident in itertools.product(delims, kinds, counts, ids):
        if any(c in ident for c in (st, et, sub)):
            continue
        w = pyx12.x12file.X12Writer(io.StringIO(), st, et, sub, '\n', '^')
        n += 1
        try:
            r = w._get_trailer_segment(kind, cnt, ident)
            ok = r.get_seg_id() == kind and r.get_value('01') == str(cnt) and r.get_value('02') == ident and len(r) == 2
            detail = 'returned %r' % r.format(st, et, sub)
        except Exception as e:
            ok = False
            detail = 'raised %s: %s' % (type(e).__name__, e)
        if not ok and len(failures) < 5:
            failures.append({'input': {'delimiters': [st, et, sub], 'seg_id': kind, 'count': cnt, 'id': ident}, 'detail': detail})
    return {'function': 'pyx12.x12file.X12Writer._get_trailer_segment', 'evaluations': n,
            'bound': 'grid: 6 delimiter triples x 3 kinds x 8 counts x 7 ids (ids containing a delimiter skipped)',
            'failures': failures}


def build_reader_cleanup(args):
    import pyx12.x12file
    r = native_reader(args.get('self', {}))
    return (lambda: pyx12.x12file.X12Reader.cleanup(r)), (), {'self': r}


# ---------------------------------------------------------------------------------------
# C01 / C07: X12Reader.__iter__ (per-line obligations; the raw line source is abstract)
from pyvc.contract import REGISTRY as _REG

contract('abs:pyx12.segment.Segment.__init__',
         self_type=Obj('pyx12.segment.Segment'),
         params={'seg_str': Opt(Str), 'seg_term': Str, 'ele_term': Str, 'subele_term': Str, 'repetition_term': Str},
         returns=Opaque('Segment'),
         raises={},
         assume_only=True,
         note='constructor used abstractly by the reader loop: total for string delimiters of one character '
              '(exception freedom of the real constructor: contracts/segment.py on bounded texts + bounded stand-in)')

READER_ITER = base_state('pyx12.x12file.X12Reader', raw=Obj('ext.LineSource'), seg_term=Str, ele_term=Str, subele_term=Str)

contract('pyx12.x12file.X12Reader.__iter__',
         self_type=READER_ITER,
         returns=NoneT,
         requires=['self.hl_count >= 0 and self.lx_count >= 0 and self.gs_count >= 0 and self.st_count >= 0 and self.seg_count >= 0',
                   'len(self.ele_term) == 1'],
         raises={'X12Error': True},
         loops={0: dict(elements=Str, index='k',
                        invariant=['self.hl_count >= 0 and self.lx_count >= 0 and self.gs_count >= 0 and self.st_count >= 0 and self.seg_count >= 0',
                                   'len(self.ele_term) == 1'],
                        modifies=['self.err_list', 'self.loops', 'self.hl_stack', 'self.gs_count', 'self.st_count', 'self.hl_count',
                                  'self.seg_count', 'self.cur_line', 'self.isa_ids', 'self.gs_ids', 'self.st_ids', 'self.lx_count',
                                  'self.isa_usage', 'err_str', 'seg_data', 'line'],
                        types={'err_str': Str, 'seg_data': Opaque('Segment'), 'line': Str})},
         build='build_reader_iter',
         alias={'pyx12.segment.Segment.__init__': 'abs:pyx12.segment.Segment.__init__'},
         serves=['C01', 'C07'],
         note='every raw line - including empty and blank-only ones - is turned into a segment without any exception other '
              'than the documented X12Error (ISA with a wrong element count)')


def build_reader_iter(args):
    """native witness search for the reader loop: interchanges whose body holds one unusual raw line"""
    import io
    import pyx12.x12file
    isa = 'ISA*00*          *00*          *ZZ*SENDER         *ZZ*RECEIVER       *040608*1333*U*00401*000000001*0*P*:~'
    lines = ['', ' ', '   ', '*', ' *', 'A', 'AB*', '  AB*1', 'ISA*1', 'IEA', 'GE', 'SE', 'HL', 'HL*x*y', '\n', 'ST*1*2']

    def run():
        for ln in lines:
            r = pyx12.x12file.X12Reader(io.StringIO(isa + 'GS*HC*A*B*20040608*1333*1*X*004010X098A1~' + ln + '~'))
            try:
                for seg in r:
                    r.pop_errors()
                r.cleanup()
            except pyx12.errors.X12Error:
                pass
    return run, (), {}


# ---- bounded native safety net for the envelope machine (C04): whole documents through the real reader ---------------------------
def _cut_open(segs, rnd):
    k = rnd.randint(1, max(1, len(segs) - 2))
    while k > 1 and segs[k - 1].startswith('IEA'):
        k -= 1
    return segs[:k]


def bounded_envelope(seed, tier):
    """generated interchanges (1-2 interchanges x 1-3 groups x 1-3 sets x 0-4 body segments incl. HL trees) read by the real
    X12Reader: a well nested document with true counts and matching, unique control numbers draws NO envelope error; the same
    document with exactly one injected fault draws exactly the error code of that fault; a trailer with no open header of its kind
    and a header left open at the end draw at least one; nothing but the documented X12Error is raised"""
    import io
    import random
    import pyx12.x12file
    import pyx12.errors
    rnd = random.Random(seed)
    ENV = ('isa', 'gs', 'st')
    fails, n = [], 0

    def isa(ctl):
        return 'ISA*00*          *00*          *ZZ*SENDER         *ZZ*RECEIVER       *040608*1333*U*00401*%09d*0*P*:' % ctl

    def build(fault=None):
        """-> (segments, expected set of (kind, code))"""
        segs, exp = [], set()
        target = rnd.randint(0, 3)          # the set (in document order) that carries a set-level fault; the last one if there are fewer
        seen_sets = [0]
        n_isa = rnd.randint(1, 2)
        isa_ids = rnd.sample(range(1, 900), n_isa)
        if fault == 'dup-isa' and n_isa == 2:
            isa_ids[1] = isa_ids[0]
            exp.add(('isa', '025'))
        for ii, ictl in enumerate(isa_ids):
            segs.append(isa(ictl))
            n_gs = rnd.randint(1, 3)
            gs_ids = rnd.sample(range(1, 900), n_gs)
            if fault == 'dup-gs' and n_gs >= 2 and ii == 0:
                gs_ids[1] = gs_ids[0]
                exp.add(('gs', '6'))
            for gi, gctl in enumerate(gs_ids):
                segs.append('GS*HC*S*R*20040608*1333*%d*X*004010X098A1' % gctl)
                n_st = rnd.randint(1, 3)
                st_ids = rnd.sample(range(1, 9000), n_st)
                if fault == 'dup-st' and n_st >= 2 and ii == 0 and gi == 0:
                    st_ids[1] = st_ids[0]
                    exp.add(('st', '23'))
                for si, sctl in enumerate(st_ids):
                    last_set = (ii == n_isa - 1 and gi == n_gs - 1 and si == n_st - 1)
                    first = (seen_sets[0] == target) or (last_set and seen_sets[0] < target)
                    seen_sets[0] += 1
                    segs.append('ST*837*%04d' % sctl)
                    body = ['BHT*0019*00*1*20040608*1333*CH']
                    nhl = rnd.randint(0, 6)
                    hstack = []
                    for h in range(1, nhl + 1):
                        num = h
                        if not hstack:
                            parent = ''
                            hstack = [h]
                        else:
                            k = rnd.randrange(len(hstack))
                            parent = str(hstack[k])
                            closed = [x for x in range(1, h) if x not in hstack[:k + 1]]
                            if fault == 'hl-parent' and first and h == nhl:
                                # a parent that is not on the open path: closed earlier in this set, or never seen in this set
                                parent = str(rnd.choice(closed)) if closed and rnd.random() < 0.7 else str(h + rnd.randint(1, 4))
                                if parent != str(hstack[k]) and int(parent) not in hstack:
                                    exp.add(('seg', 'HL2'))
                                else:
                                    parent = str(h + 9)
                                    exp.add(('seg', 'HL2'))
                            hstack = hstack[:k + 1] + [h]
                        if fault == 'hl-seq' and first and h == nhl:
                            num = h + 5
                            exp.add(('seg', 'HL1'))
                        body.append('HL*%s*%s*20*1' % (num, parent))
                    for _ in range(rnd.randint(0, 2)):
                        body.append('REF*EA*%d' % rnd.randint(1, 99))
                    nlx = rnd.randint(0, 3) if nhl else 0
                    if nlx:
                        body.append('CLM*%d*100' % rnd.randint(1, 999))       # service lines are numbered within a claim
                    for x in range(1, nlx + 1):
                        lx = str(x)
                        if fault == 'lx-count' and first and x == nlx:
                            lx = rnd.choice([str(x + 1), '0' + str(x), 'A', ''])
                            exp.add(('seg', 'LX'))
                        body.append('LX*%s' % lx if lx != '' else 'LX')
                    segs += body
                    cnt = len(body) + 2
                    if fault == 'se-count' and first:
                        cnt += rnd.choice([-1, 1, 7])
                        exp.add(('st', '4'))
                    sid = '%04d' % sctl
                    if fault == 'se-id' and first:
                        sid = '%04d' % (sctl + 1)
                        exp.add(('st', '3'))
                    if not (fault == 'no-se' and first):
                        segs.append('SE*%d*%s' % (cnt, sid))
                gcnt, gid = n_st, str(gctl)
                if fault == 'ge-count' and ii == 0 and gi == 0:
                    gcnt += 1
                    exp.add(('gs', '5'))
                if fault == 'ge-id' and ii == 0 and gi == 0:
                    # control numbers are compared as TEXT: a different rendering of the same number is a mismatch too
                    gid = rnd.choice([str(gctl + 1), '0' + gid, gid + ' ', 'B99'])
                    exp.add(('gs', '4'))
                segs.append('GE*%d*%s' % (gcnt, gid))
            icnt, iid = n_gs, ictl
            if fault == 'iea-count' and ii == 0:
                icnt += 1
                exp.add(('isa', '021'))
            if fault == 'iea-id' and ii == 0:
                iid += 1
                exp.add(('isa', '001'))
            segs.append('IEA*%d*%09d' % (icnt, iid))
        return segs, exp

    def read(segs):
        r = pyx12.x12file.X12Reader(io.StringIO('~\n'.join(segs) + '~\n'))
        r.check_837_lx = True          # what x12n_document switches on for an 837 after the map lookup
        errs = []
        for s in r:
            errs += r.pop_errors()
        r.cleanup()
        errs += r.pop_errors()
        return set((e[0], e[1]) for e in errs if e[0] in ENV or (e[0] == 'seg' and e[1] in ('HL1', 'HL2', 'LX')))

    faults = [None, 'dup-isa', 'dup-gs', 'dup-st', 'se-count', 'se-id', 'ge-count', 'ge-id', 'iea-count', 'iea-id', 'hl-seq', 'hl-parent', 'hl-parent',
              'hl-parent', 'hl-parent', 'lx-count']
    rounds = 40 if tier == 'quick' else 400
    for k in range(rounds):
        for fault in faults:
            segs, exp = build(fault)
            n += 1
            try:
                got = read(segs)
            except pyx12.errors.X12Error:
                continue
            except Exception as e:
                if len(fails) < 8:
                    fails.append({'input': {'fault': fault, 'segments': segs[:40]}, 'detail': 'raised %s: %s' % (type(e).__name__, str(e)[:80])})
                continue
            if got != exp and len(fails) < 8:
                fails.append({'input': {'fault': fault, 'segments': segs[:40]},
                              'detail': 'envelope errors %r, the recount of the document gives %r' % (sorted(got), sorted(exp))})
        # at-least-one clauses
        segs, _ = build(None)
        for lab, s2 in (('trailer without header', [segs[0], rnd.choice(['SE*1*0001', 'GE*1*1', 'IEA*1*000000001'])] + segs[1:]),
                        ('input ends with headers open', _cut_open(segs, rnd))):
            if lab.startswith('trailer') and s2[1].startswith('IEA'):
                continue        # an IEA right after ISA closes that interchange properly (zero groups): not a misplaced trailer
            n += 1
            try:
                got = read(s2)
            except pyx12.errors.X12Error:
                continue
            except Exception as e:
                if len(fails) < 8:
                    fails.append({'input': {'case': lab, 'segments': s2[:40]}, 'detail': 'raised %s: %s' % (type(e).__name__, str(e)[:80])})
                continue
            if not [e for e in got if e[0] in ENV] and len(fails) < 8:
                fails.append({'input': {'case': lab, 'segments': s2[:40]}, 'detail': 'no envelope error although: %s' % lab})
    return {'function': 'pyx12.x12file.X12Reader (envelope machine, whole documents)', 'evaluations': n,
            'bound': '%d rounds x (valid + 12 kinds of single faults + 2 at-least-one cases) of generated interchanges, seed %d' % (rounds, seed), 'failures': fails}


# ---- bounded native safety net for the writer (C11): whole write histories, read back by the real reader --------------------------
def bounded_writer(seed, tier):
    """seeded well-nested write histories (1-2 interchanges x 1-3 groups x 1-3 sets x 0-4 body segments; every trailer is written
    explicitly with garbage counts, or omitted and left to a later trailer or to Close) under 4 delimiter sets: the text read back by
    the real X12Reader shows NO envelope error, and the non-trailer segments read back are the ones written, in order"""
    import io
    import random
    import pyx12.x12file
    import pyx12.segment
    rnd = random.Random(seed)
    fails, n = [], 0
    delims = [('~', '*', ':', '\n'), ('!', '|', '>', ''), ('\n', '^', '&', ''), ('\x1c', '\x1d', '\x1f', '\r\n')]
    rounds = 60 if tier == 'quick' else 600
    for k in range(rounds):
        st, et, sub, eol = delims[k % len(delims)]
        S = lambda t: pyx12.segment.Segment(t.replace('*', et).replace(':', sub), st, et, sub)
        hist = []
        n_isa = rnd.randint(1, 2)
        isa_ids = rnd.sample(range(1, 999999), n_isa)          # control numbers are unique within their scope (a repeat is an error)
        for ii in range(n_isa):
            hist.append('ISA*00*          *00*          *ZZ*SENDER         *ZZ*RECEIVER       *040608*1333*U*00401*%09d*0*P*:' % isa_ids[ii])
            n_gs = rnd.randint(1, 3)
            gs_ids = rnd.sample(range(1, 99999), n_gs)
            for gi in range(n_gs):
                hist.append('GS*HC*S*R*20040608*1333*%d*X*004010X098A1' % gs_ids[gi])
                n_st = rnd.randint(1, 3)
                st_ids = rnd.sample(range(1, 9999), n_st)
                for si in range(n_st):
                    hist.append('ST*837*%04d' % st_ids[si])
                    for _ in range(rnd.randint(0, 4)):
                        hist.append(rnd.choice(['REF*EA*12', 'NM1*85*2*X:Y*****XX*1', 'DTP*472*D8*20040608', 'HL*1**20*1']))
                    # a trailer may be left out only where the next thing written is a trailer of an enclosing level or Close
                    if si < n_st - 1 or rnd.random() < 0.6:
                        hist.append('SE*%d*%s' % (rnd.randint(0, 99), rnd.choice(['0001', 'X', ''])))
                if gi < n_gs - 1 or rnd.random() < 0.6:
                    hist.append('GE*%d*%d' % (rnd.randint(0, 9), rnd.randint(1, 99)))
            if ii < n_isa - 1 or rnd.random() < 0.6:
                hist.append('IEA*%d*%09d' % (rnd.randint(0, 9), rnd.randint(1, 99)))
        n += 1
        buf = io.StringIO()
        try:
            w = pyx12.x12file.X12Writer(buf, st, et, sub, eol, '^')
            for t in hist:
                w.Write(S(t) if not t.startswith('ISA') else pyx12.segment.Segment(t.replace('*', et)[:-1] + sub, st, et, sub))
            w.Close()
            r = pyx12.x12file.X12Reader(io.StringIO(buf.getvalue()))
            errs, back = [], []
            for sg in r:
                errs += r.pop_errors()
                back.append(sg)
            r.cleanup()
            errs += r.pop_errors()
        except Exception as e:
            if len(fails) < 8:
                fails.append({'input': {'delimiters': [st, et, sub, eol], 'history': hist}, 'detail': 'raised %s: %s' % (type(e).__name__, str(e)[:100])})
            continue
        env = [(e[0], e[1]) for e in errs if e[0] in ('isa', 'gs', 'st')]
        if env and len(fails) < 8:
            fails.append({'input': {'delimiters': [st, et, sub, eol], 'history': hist}, 'detail': 'what the writer wrote reads back with envelope errors %r' % (env[:4],)})
        want = [t.split('*')[0] + '|' + '|'.join(t.split('*')[1:]).rstrip('|') for t in hist if t[:2] not in ('SE', 'GE', 'IE') and not t.startswith('ISA')]
        got = [sg.format('~', '*', ':')[:-1] for sg in back if sg.get_seg_id() not in ('SE', 'GE', 'IEA', 'ISA')]
        got = [g.split('*')[0] + '|' + '|'.join(g.split('*')[1:]).rstrip('|') for g in got]
        if got != want and len(fails) < 8:
            d = [(a, b) for a, b in zip(want, got) if a != b][:2]
            fails.append({'input': {'delimiters': [st, et, sub, eol], 'history': hist},
                          'detail': 'segments read back differ from the segments written (%d vs %d): %r' % (len(got), len(want), d)})
    return {'function': 'pyx12.x12file.X12Writer.Write/Close (whole histories, read back)', 'evaluations': n,
            'bound': '%d seeded write histories x 4 delimiter sets, seed %d' % (rounds, seed), 'failures': fails}
