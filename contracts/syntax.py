"""Contracts for pyx12/syntax.py and segment_if._split_syntax (C14)."""
from pyvc.contract import contract, set_scope, Const, abstract_type
from pyvc.tys import *
from specs.syntax import *
from specs.prim import *

set_scope('contracts.syntax')

# abstract view of a data segment for code that only READS it (C14, C04): pure functions of
# the receiver.  The concrete meaning of get_value/__len__ is C17's contract on Segment.
abstract_type('Segment', {
    'get_value': dict(args=[Str], returns=Opt(Str)),
    '__len__': dict(args=[], returns=Int, ensures=['result >= 0']),
    'get_seg_id': dict(args=[], returns=Opt(Str)),
    'is_empty': dict(args=[], returns=Bool),
    'is_seg_id_valid': dict(args=[], returns=Bool),
    '__repr__': dict(args=[], returns=Str),
}, note='read-only use of pyx12.segment.Segment; purity is a frame fact of segment.py (C17/C18)')

KINDS = ['P', 'R', 'E', 'C', 'L']
MAX_POS = 6     # notes of 2..6 positions; the ground check asserts no shipped note has more

contract('pyx12.syntax.is_syntax_valid',
         params={'seg_data': Opaque('Segment')},
         type_cases=[('%s/%d' % (k, n), {'syn': ListLit(*([Const(k)] + [Int] * n))})
                     for k in KINDS for n in range(2, MAX_POS + 1)],
         returns=Tup(Bool, Opt(Str)),
         requires=['valid_positions(syn[1:])', 'seg_consistent(seg_data, syn[1:])'],
         ghost={'probes': {'seg.len': 'len(seg_data)', 'vals': '[seg_data.get_value(refdes2(i)) for i in syn[1:]]',
                           'seg.id': 'seg_data.get_seg_id()'}},
         build='build_is_syntax_valid',
         ensures=['result[0] == (not syntax_violated(syn[0], seg_data, syn[1:]))',
                  '(result[1] is None) == result[0]'],
         raises={},
         serves=['C14'])

contract('pyx12.map_if.segment_if._split_syntax',
         params={'self': Opaque('segment_if'), 'syntax': Str},
         split_len={'syntax': 13},
         returns=Opt(ListOf(Int)),
         requires=["in_lang(syntax, '[PRCLE]([0-9][0-9])*')", 'len(syntax) <= 13'],
         ensures=['result == parse_note(syntax)'],
         raises={},
         serves=['C14'],
         note='precondition discharged on every <syntax> text of every shipped map (ground)')



# ---- native replay helper ---------------------------------------------------------------
def _lz(probes, name):
    if name in probes:
        return probes[name]
    if name + '?a' in probes:
        return _lz(probes, name + '?A') if probes[name + '?a'] else _lz(probes, name + '?B')
    return None


def build_is_syntax_valid(args):
    import pyx12.segment
    import pyx12.syntax
    sub = args['syn']
    n = sub['.__len__']
    syn = [sub['[%d]' % k] for k in range(n)]
    pr = args.get('__probes__', {})
    seglen = max(0, min(int(pr.get('seg.len', 0)), 99))
    vals = {}
    for k, pos in enumerate(syn[1:]):
        v = _lz(pr, 'vals[%d]' % k)
        if v is not None and pos <= seglen:
            vals[pos] = v
    sid = _lz(pr, 'seg.id') or 'ZZ'
    text = sid + ''.join('*' + vals.get(p, '') for p in range(1, seglen + 1))
    seg = pyx12.segment.Segment(text, '~', '*', '\x1f')
    return (lambda: pyx12.syntax.is_syntax_valid(seg, syn)), (), {'seg_data': seg, 'syn': syn}


# ---- bounded native stand-ins (labelled bounded; catch refactorings that leave the verifier's reach) ------
def bounded_is_syntax_valid(seed, tier):
    """the contract of is_syntax_valid evaluated natively on the real code: every note kind x position sets of
    2..3 (quick) / 2..4 (thorough) positions out of 1..4 x every real segment of 0..4 elements whose elements
    range over {'', 'A', ':B', 'A:B'}"""
    import itertools
    import pyx12.segment
    import pyx12.syntax
    alphabet = ['', 'A', ':B', 'A:B']
    sizes = (2, 3) if tier == 'quick' else (2, 3, 4)
    fails, n = [], 0
    segs = []
    for ln in range(0, 5):
        for vals in itertools.product(alphabet, repeat=ln):
            segs.append(pyx12.segment.Segment('ZZ' + ''.join('*' + v for v in vals), '~', '*', ':'))
    for kind in KINDS:
        for size in sizes:
            for idxs in itertools.permutations(range(1, 5), size):
                syn = [kind] + list(idxs)
                for seg in segs:
                    n += 1
                    try:
                        ok, msg = pyx12.syntax.is_syntax_valid(seg, list(syn))
                    except Exception as e:
                        ok, msg = 'raised %s' % type(e).__name__, None
                    want = not syntax_violated(kind, seg, list(idxs))
                    if ok != want or (ok is True) != (msg is None):
                        if len(fails) < 5:
                            fails.append({'input': {'syn': syn, 'segment': seg.format('~', '*', ':')},
                                          'detail': 'is_syntax_valid returned %r, the X12 definition of the note gives %r' % ((ok, msg), want)})
    return {'function': 'pyx12.syntax.is_syntax_valid', 'evaluations': n,
            'bound': 'kinds PRECL x ordered position sets of size %s out of 1..4 x all segments of 0..4 elements over %r' % (list(sizes), alphabet),
            'failures': fails}


def bounded_split_syntax(seed, tier):
    """_split_syntax on the real class == parse_note for every kind x 2..6 positions drawn from a seeded sample of
    two-digit positions, plus every <syntax> text of every shipped map"""
    import random
    import pyx12.map_if
    rnd = random.Random(seed)
    node = pyx12.map_if.segment_if.__new__(pyx12.map_if.segment_if)
    texts = set()
    for kind in KINDS:
        for n in range(2, MAX_POS + 1):
            for _ in range(20 if tier == 'quick' else 200):
                texts.add(kind + ''.join('%02d' % rnd.randint(1, 99) for _ in range(n)))
    import glob, os, re
    import pyx12
    mapdir = os.path.join(os.path.dirname(pyx12.__file__), 'map')
    for f in sorted(glob.glob(os.path.join(mapdir, '*.xml'))):
        for m in re.finditer(r'<syntax>\s*([^<]*?)\s*</syntax>', open(f, encoding='utf-8', errors='replace').read()):
            texts.add(m.group(1))
    fails = []
    for t in sorted(texts):
        try:
            got = node._split_syntax(t)
        except Exception as e:
            got = 'raised %s' % type(e).__name__
        want = parse_note(t) if re.fullmatch('[PRCLE]([0-9][0-9])*', t) else got
        if got != want and len(fails) < 5:
            fails.append({'input': {'syntax': t}, 'detail': '_split_syntax returned %r, expected %r' % (got, want)})
    return {'function': 'pyx12.map_if.segment_if._split_syntax', 'evaluations': len(texts),
            'bound': 'seeded notes of 2..6 positions per kind + every <syntax> text of the shipped maps', 'failures': fails}
