"""Contracts for pyx12/syntax.py and segment_if._split_syntax (C14)."""
from pyvc.contract import contract, set_scope, Const, abstract_type
from pyvc.tys import *
from specs.syntax import *
from specs.prim import *

set_scope('contracts.syntax')

# abstract view of a data segment for code that only READS it (C14, C04): pure functions of
# the receiver.  The concrete meaning of get_value/__len__ is C17's contract on Segment.
abstract_type('Segment', {
    'get_value': dict(args=[Str], returns=Opt(Str)),
    '__len__': dict(args=[], returns=Int, ensures=['result >= 0']),
    'get_seg_id': dict(args=[], returns=Opt(Str)),
    'is_empty': dict(args=[], returns=Bool),
    'is_seg_id_valid': dict(args=[], returns=Bool),
    '__repr__': dict(args=[], returns=Str),
}, note='read-only use of pyx12.segment.Segment; purity is a frame fact of segment.py (C17/C18)')

KINDS = ['P', 'R', 'E', 'C', 'L']
MAX_POS = 6     # notes of 2..6 positions; the ground check asserts no shipped note has more

contract('pyx12.syntax.is_syntax_valid',
         params={'seg_data': Opaque('Segment')},
         type_cases=[('%s/%d' % (k, n), {'syn': ListLit(*([Const(k)] + [Int] * n))})
                     for k in KINDS for n in range(2, MAX_POS + 1)],
         returns=Tup(Bool, Opt(Str)),
         requires=['valid_positions(syn[1:])'],
         ensures=['result[0] == (not syntax_violated(syn[0], seg_data, syn[1:]))',
                  '(result[1] is None) == result[0]'],
         raises={},
         serves=['C14'])

contract('pyx12.map_if.segment_if._split_syntax',
         params={'self': Opaque('segment_if'), 'syntax': Str},
         split_len={'syntax': 13},
         returns=Opt(ListOf(Int)),
         requires=["in_lang(syntax, '[PRCLE]([0-9][0-9])*')", 'len(syntax) <= 13'],
         ensures=['result == parse_note(syntax)'],
         raises={},
         serves=['C14'],
         note='precondition discharged on every <syntax> text of every shipped map (ground)')
