"""Contracts for pyx12/syntax.py and segment_if._split_syntax (C14)."""
from pyvc.contract import contract, set_scope, Const, abstract_type
from pyvc.tys import *
from specs.syntax import *
from specs.prim import *

set_scope('contracts.syntax')

# abstract view of a data segment for code that only READS it (C14, C04): pure functions of
# the receiver.  The concrete meaning of get_value/__len__ is C17's contract on Segment.
abstract_type('Segment', {
    'get_value': dict(args=[Str], returns=Opt(Str)),
    '__len__': dict(args=[], returns=Int, ensures=['result >= 0']),
    'get_seg_id': dict(args=[], returns=Opt(Str)),
    'is_empty': dict(args=[], returns=Bool),
    'is_seg_id_valid': dict(args=[], returns=Bool),
    '__repr__': dict(args=[], returns=Str),
}, note='read-only use of pyx12.segment.Segment; purity is a frame fact of segment.py (C17/C18)')

KINDS = ['P', 'R', 'E', 'C', 'L']
MAX_POS = 6     # notes of 2..6 positions; the ground check asserts no shipped note has more

contract('pyx12.syntax.is_syntax_valid',
         params={'seg_data': Opaque('Segment')},
         type_cases=[('%s/%d' % (k, n), {'syn': ListLit(*([Const(k)] + [Int] * n))})
                     for k in KINDS for n in range(2, MAX_POS + 1)],
         returns=Tup(Bool, Opt(Str)),
         requires=['valid_positions(syn[1:])', 'seg_consistent(seg_data, syn[1:])'],
         ghost={'probes': {'seg.len': 'len(seg_data)', 'vals': '[seg_data.get_value(refdes2(i)) for i in syn[1:]]',
                           'seg.id': 'seg_data.get_seg_id()'}},
         build='build_is_syntax_valid',
         ensures=['result[0] == (not syntax_violated(syn[0], seg_data, syn[1:]))',
                  '(result[1] is None) == result[0]'],
         raises={},
         serves=['C14'])

contract('pyx12.map_if.segment_if._split_syntax',
         params={'self': Opaque('segment_if'), 'syntax': Str},
         split_len={'syntax': 13},
         returns=Opt(ListOf(Int)),
         requires=["in_lang(syntax, '[PRCLE]([0-9][0-9])*')", 'len(syntax) <= 13'],
         ensures=['result == parse_note(syntax)'],
         raises={},
         serves=['C14'],
         note='precondition discharged on every <syntax> text of every shipped map (ground)')



# ---- native replay helper ---------------------------------------------------------------
def _lz(probes, name):
    if name in probes:
        return probes[name]
    if name + '?a' in probes:
        return _lz(probes, name + '?A') if probes[name + '?a'] else _lz(probes, name + '?B')
    return None


def build_is_syntax_valid(args):
    import pyx12.segment
    import pyx12.syntax
    sub = args['syn']
    n = sub['.__len__']
    syn = [sub['[%d]' % k] for k in range(n)]
    pr = args.get('__probes__', {})
    seglen = max(0, min(int(pr.get('seg.len', 0)), 99))
    vals = {}
    for k, pos in enumerate(syn[1:]):
        v = _lz(pr, 'vals[%d]' % k)
        if v is not None and pos <= seglen:
            vals[pos] = v
    sid = _lz(pr, 'seg.id') or 'ZZ'
    text = sid + ''.join('*' + vals.get(p, '') for p in range(1, seglen + 1))
    seg = pyx12.segment.Segment(text, '~', '*', '\x1f')
    return (lambda: pyx12.syntax.is_syntax_valid(seg, syn)), (), {'seg_data': seg, 'syn': syn}
