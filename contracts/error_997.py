"""Contracts for pyx12/error_997.py (C06): the segment counter of the 997 writer."""
from pyvc.contract import contract, set_scope, Const
from pyvc.tys import *
from specs.prim import *
import contracts.syntax      # abstract Segment

from contracts.x12file import SEG_PROBES, native_segment, _lazy, _opt

set_scope('contracts.error_997')


# ---- native replay: a real visitor over a recording stream, in the state of the counter-model ----
class _FD(object):
    def __init__(self, log):
        self.log = list(log)

    def write(self, s):
        self.log.append(s)


class _Rec(object):
    pass


def _native_visitor(state):
    import pyx12.error_997
    v = pyx12.error_997.error_997_visitor(_FD(state.get('.fd.log') or []))
    for k in ('seg_term', 'ele_term', 'subele_term', 'eol'):
        if state.get('.' + k) is not None:
            setattr(v, k, state['.' + k])
    for k in ('seg_count', 'st_control_num', 'st_loop_count'):
        setattr(v, k, state.get('.' + k, 0))
    return v


def _native_rec(state, names):
    r = _Rec()
    for n in names:
        setattr(r, n, _lazy(state, '.' + n))
    return r


def build_vis_write(args):
    v = _native_visitor(args.get('self', {}))
    seg = native_segment(args.get('__probes__', {}))
    return (lambda: v._write(seg)), (), {'self': v, 'seg_data': seg}


def build_vis_gs_pre(args):
    v = _native_visitor(args.get('self', {}))
    g = _native_rec(args.get('err_gs', {}), ('fic', 'gs_control_num', 'ack_code', 'st_count_orig', 'st_count_recv'))
    return (lambda: v.visit_gs_pre(g)), (), {'self': v, 'err_gs': g}


def build_vis_st_pre(args):
    v = _native_visitor(args.get('self', {}))
    e = _native_rec(args.get('err_st', {}), ('trn_set_id', 'trn_set_control_num'))
    return (lambda: v.visit_st_pre(e)), (), {'self': v, 'err_st': e}


VIS = Obj('pyx12.error_997.error_997_visitor', fd=Obj('ext.TextOutRaw', log=ListOf(Str)), seg_term=Str, ele_term=Str,
          subele_term=Str, eol=Str, seg_count=Int, st_control_num=Int, st_loop_count=Int)
FRAME = ['self.st_control_num == old(self.st_control_num)', 'self.st_loop_count == old(self.st_loop_count)',
         'self.seg_term == old(self.seg_term) and self.ele_term == old(self.ele_term) and self.subele_term == old(self.subele_term)']
contract('pyx12.error_997.error_997_visitor._write',
         self_type=VIS,
         params={'seg_data': Opaque('Segment')},
         returns=NoneT,
         ensures=['self.seg_count == old(self.seg_count) + 1',
                  'len(self.fd.log) == len(old(self.fd.log)) + 1',
                  "seg_data.get_seg_id() == 'ISA' or self.fd.log[-1] == seg_data.format(self.seg_term, self.ele_term, self.subele_term) + '\\n'",
                  'self.fd.log[:-1] == old(self.fd.log)'] + FRAME,
         raises={},
         modifies=['seg_count', 'fd.log'],
         ghost={'probes': SEG_PROBES, 'search': {'self/.seg_count': [0, 3, 41]}}, build='build_vis_write',
         serves=['C06'],
         note='every segment of the acknowledgement goes through _write exactly once and is counted once: SE01 = seg_count + 1 is taken '
              'from this counter in visit_gs_post')

contract('absmut:pyx12.segment.Segment.__init__',
         self_type=Obj('pyx12.segment.Segment'),
         params={'seg_str': Opt(Str), 'seg_term': Str, 'ele_term': Str, 'subele_term': Str, 'repetition_term': Str},
         returns=MutOpaque('Segment'),
         raises={},
         assume_only=True,
         note='constructor used abstractly by the 997 visitor (segments built from literals and %-formatted integers): total for '
              'string delimiters of one character (real constructor: contracts/segment.py on bounded texts + bounded stand-in)')

ABS_SEG = {'pyx12.segment.Segment.__init__': 'absmut:pyx12.segment.Segment.__init__'}
GS = Obj('pyx12.error_handler.err_gs', fic=Opt(Str), gs_control_num=Opt(Str), ack_code=Opt(Str), st_count_orig=Opt(Int), st_count_recv=Opt(Int))

contract('pyx12.error_997.error_997_visitor.visit_gs_pre',
         self_type=VIS,
         params={'err_gs': GS},
         returns=NoneT,
         ensures=['self.seg_count == 2',
                  'self.st_control_num == old(self.st_control_num) + 1',
                  'self.st_loop_count == old(self.st_loop_count) + 1',
                  'len(self.fd.log) == len(old(self.fd.log)) + 2'],
         raises={},
         alias=ABS_SEG, build='build_vis_gs_pre',
         ghost={'search': {'self/.seg_count': [0, 3, 41], 'self/.st_control_num': [0, 1, 9999], 'err_gs/.fic': ['HC', ''],
                           'err_gs/.gs_control_num': ['1', '']}},
         serves=['C06'],
         note='opening an acknowledgement set writes exactly ST and AK1 and leaves the counter at 2 = segments of the open set '
              '(ST included): the counter invariant that visit_gs_post turns into SE01')

contract('pyx12.error_997.error_997_visitor.visit_st_pre',
         self_type=VIS,
         params={'err_st': Obj('pyx12.error_handler.err_st', trn_set_id=Opt(Str), trn_set_control_num=Opt(Str))},
         returns=NoneT,
         ensures=['self.seg_count == old(self.seg_count) + 1', 'len(self.fd.log) == len(old(self.fd.log)) + 1',
                  'self.fd.log[:-1] == old(self.fd.log)'] + FRAME,
         raises={'EngineError': 'err_st.trn_set_id is None', 'AttributeError': 'err_st.trn_set_id is not None and err_st.trn_set_control_num is None'},
         alias=ABS_SEG, build='build_vis_st_pre',
         ghost={'search': {'err_st/.trn_set_control_num': ['0001', '0000000001', ' 12 ', '', 'A*B'], 'err_st/.trn_set_id': ['837', ''],
                           'self/.seg_count': [0, 3, 41]}},
         serves=['C06'],
         note='AK2: one segment written and counted.  The two exceptional outcomes (an err_st whose ST01/ST02 are None) are stated '
              'exactly, not excluded; whether the validator can hand over such an err_st is decided by the pipeline stand-in, not here')


def build_vis_ele(args):
    v = _native_visitor(args.get('self', {}))
    st = args.get('err_ele', {})
    e = _native_rec(st, ('ele_pos', 'subele_pos', 'ele_ref_num'))
    if e.ele_pos is None:
        e.ele_pos = 1
    e.errors = [tuple(_opt(x) for x in t) for t in (st.get('.errors') or [])]
    return (lambda: v.visit_ele(e)), (), {'self': v, 'err_ele': e}


_CODES = [str(k) for k in range(1, 11)]
_ELE_ERRS = [[['5', 'too long', ['MIM']], ['7', 'bad code', ['MIM']]], [[c, 'm', ['V']] for c in _CODES], [[c, 'm', 'none_Opt_Str'] for c in _CODES],
             [['5', 'm', ['A*B']], ['6', 'm', ['']], ['11', 'm', ['V']], ['1', 'm', ['a:b~']]], []]

contract('pyx12.error_997.error_997_visitor.visit_ele',
         self_type=VIS,
         params={'err_ele': Obj('pyx12.error_handler.err_ele', ele_pos=Int, subele_pos=Opt(Int), ele_ref_num=Opt(Str),
                                errors=ListOf(Tup(Str, Str, Opt(Str))))},
         returns=NoneT,
         requires=['len(self.seg_term) == 1 and len(self.ele_term) == 1 and len(self.subele_term) == 1'],
         ensures=['self.seg_count - len(self.fd.log) == old(self.seg_count) - len(old(self.fd.log))',
                  'len(self.fd.log) <= len(old(self.fd.log)) + len(err_ele.errors)',
                  'len(self.fd.log) >= len(old(self.fd.log))'] + FRAME,
         raises={},
         loops={0: dict(index='k', ghost={'c0': 'self.seg_count', 'n0': 'len(self.fd.log)', 'scn0': 'self.st_control_num', 'slc0': 'self.st_loop_count',
                                          't0': 'self.seg_term', 't1': 'self.ele_term', 't2': 'self.subele_term'},
                        invariant=['self.seg_count - len(self.fd.log) == c0 - n0', 'len(self.fd.log) <= n0 + k', 'len(self.fd.log) >= n0',
                                   'self.st_control_num == scn0 and self.st_loop_count == slc0',
                                   'self.seg_term == t0 and self.ele_term == t1 and self.subele_term == t2'],
                        modifies=['self.seg_count', 'self.fd.log', 'seg_data', 'err_cde', 'err_str', 'bad_value'],
                        types={'seg_data': MutOpaque('Segment'), 'err_cde': Str, 'err_str': Str, 'bad_value': Opt(Str)})},
         alias=ABS_SEG, build='build_vis_ele', options={'seg_set_no_frame': True},
         ghost={'search': {'self/.seg_count': [0, 7], 'err_ele/.errors': _ELE_ERRS, 'err_ele/.subele_pos': [None, 2],
                           'err_ele/.ele_ref_num': [None, '66']}},
         serves=['C06'],
         note='AK4 lines: every line written is counted (seg_count - lines written is invariant over the loop), at most one line per recorded '
              'error, nothing else of the visitor changes, no exception for any error list')


contract('pyx12.error_997.error_997_visitor.__init__',
         self_type=Obj('pyx12.error_997.error_997_visitor'),
         params={'fd': Obj('ext.TextOutRaw', log=ListOf(Str)), 'term': Tup(Str, Str, Str, Str)},
         returns=NoneT,
         ensures=["self.seg_term == '~' and self.ele_term == '*' and self.subele_term == ':'",
                  'self.seg_count == 0 and self.st_control_num == 0 and self.st_loop_count == 0',
                  'self.fd.log == old(fd.log)'],
         raises={},
         serves=['C06', 'C12'],
         note='the 997 is always written with the constants ~ * : whatever `term` (the delimiters of the input) holds: the output delimiters '
              'are not a function of the input (the reason given for the C12 delim-read allowance of this class), and the counters start at 0')
