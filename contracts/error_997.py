"""Contracts for pyx12/error_997.py (C06): the segment counter of the 997 writer."""
from pyvc.contract import contract, set_scope, Const
from pyvc.tys import *
from specs.prim import *
import contracts.syntax      # abstract Segment

set_scope('contracts.error_997')

VIS = Obj('pyx12.error_997.error_997_visitor', fd=Obj('ext.TextOutRaw', log=ListOf(Str)), seg_term=Str, ele_term=Str,
          subele_term=Str, eol=Str, seg_count=Int)

contract('pyx12.error_997.error_997_visitor._write',
         self_type=VIS,
         params={'seg_data': Opaque('Segment')},
         returns=NoneT,
         ensures=['self.seg_count == old(self.seg_count) + 1',
                  'len(self.fd.log) == len(old(self.fd.log)) + 1',
                  "seg_data.get_seg_id() == 'ISA' or self.fd.log[-1] == seg_data.format(self.seg_term, self.ele_term, self.subele_term) + '\\n'"],
         raises={},
         serves=['C06'],
         note='every segment of the acknowledgement goes through _write exactly once and is counted once: SE01 = seg_count + 1 is taken '
              'from this counter in visit_gs_post')
