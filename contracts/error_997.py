"""Contracts for pyx12/error_997.py (C06): the segment counter of the 997 writer."""
from pyvc.contract import contract, set_scope, Const
from pyvc.tys import *
from specs.prim import *
import contracts.syntax      # abstract Segment

set_scope('contracts.error_997')

VIS = Obj('pyx12.error_997.error_997_visitor', fd=Obj('ext.TextOutRaw', log=ListOf(Str)), seg_term=Str, ele_term=Str,
          subele_term=Str, eol=Str, seg_count=Int, st_control_num=Int, st_loop_count=Int)
FRAME = ['self.st_control_num == old(self.st_control_num)', 'self.st_loop_count == old(self.st_loop_count)',
         'self.seg_term == old(self.seg_term) and self.ele_term == old(self.ele_term) and self.subele_term == old(self.subele_term)']
contract('pyx12.error_997.error_997_visitor._write',
         self_type=VIS,
         params={'seg_data': Opaque('Segment')},
         returns=NoneT,
         ensures=['self.seg_count == old(self.seg_count) + 1',
                  'len(self.fd.log) == len(old(self.fd.log)) + 1',
                  "seg_data.get_seg_id() == 'ISA' or self.fd.log[-1] == seg_data.format(self.seg_term, self.ele_term, self.subele_term) + '\\n'",
                  'self.fd.log[:-1] == old(self.fd.log)'] + FRAME,
         raises={},
         modifies=['seg_count', 'fd.log'],
         serves=['C06'],
         note='every segment of the acknowledgement goes through _write exactly once and is counted once: SE01 = seg_count + 1 is taken '
              'from this counter in visit_gs_post')

contract('absmut:pyx12.segment.Segment.__init__',
         self_type=Obj('pyx12.segment.Segment'),
         params={'seg_str': Opt(Str), 'seg_term': Str, 'ele_term': Str, 'subele_term': Str, 'repetition_term': Str},
         returns=MutOpaque('Segment'),
         raises={},
         assume_only=True,
         note='constructor used abstractly by the 997 visitor (segments built from literals and %-formatted integers): total for '
              'string delimiters of one character (real constructor: contracts/segment.py on bounded texts + bounded stand-in)')

ABS_SEG = {'pyx12.segment.Segment.__init__': 'absmut:pyx12.segment.Segment.__init__'}
GS = Obj('pyx12.error_handler.err_gs', fic=Opt(Str), gs_control_num=Opt(Str), ack_code=Opt(Str), st_count_orig=Opt(Int), st_count_recv=Opt(Int))

contract('pyx12.error_997.error_997_visitor.visit_gs_pre',
         self_type=VIS,
         params={'err_gs': GS},
         returns=NoneT,
         ensures=['self.seg_count == 2',
                  'self.st_control_num == old(self.st_control_num) + 1',
                  'self.st_loop_count == old(self.st_loop_count) + 1',
                  'len(self.fd.log) == len(old(self.fd.log)) + 2'],
         raises={},
         alias=ABS_SEG,
         serves=['C06'],
         note='opening an acknowledgement set writes exactly ST and AK1 and leaves the counter at 2 = segments of the open set '
              '(ST included): the counter invariant that visit_gs_post turns into SE01')

contract('pyx12.error_997.error_997_visitor.visit_st_pre',
         self_type=VIS,
         params={'err_st': Obj('pyx12.error_handler.err_st', trn_set_id=Opt(Str), trn_set_control_num=Opt(Str))},
         returns=NoneT,
         ensures=['self.seg_count == old(self.seg_count) + 1', 'len(self.fd.log) == len(old(self.fd.log)) + 1',
                  'self.fd.log[:-1] == old(self.fd.log)'] + FRAME,
         raises={'EngineError': 'err_st.trn_set_id is None', 'AttributeError': 'err_st.trn_set_id is not None and err_st.trn_set_control_num is None'},
         alias=ABS_SEG,
         serves=['C06'],
         note='AK2: one segment written and counted.  The two exceptional outcomes (an err_st whose ST01/ST02 are None) are stated '
              'exactly, not excluded; whether the validator can hand over such an err_st is decided by the pipeline stand-in, not here')
