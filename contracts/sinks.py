"""BOUNDED native stand-ins for the document-level clauses of C08 (XML rendering / round trip) and C19
(HTML report completeness), which depend on the map walker and the error iterator and are not under a
deductive contract.  Labelled bounded; never counted as proved."""
from pyvc.contract import set_scope

set_scope('contracts.sinks')

FIXTURES = ('simple_837p', '834_lui_id', '835id', 'mult_isa', 'ordinal', 'repeat_init_segment')


def _docs():
    from pyx12.test.x12testdata import datafiles
    out = []
    for n in FIXTURES:
        if n in datafiles and 'source' in datafiles[n]:
            out.append((n, datafiles[n]['source']))
    return out


def _segments(text):
    st, et = text[105], text[3]
    return [p.lstrip('\n\r') for p in text.split(st)[:-1] if p.lstrip('\n\r') != '']


def bounded_xml_roundtrip(seed, tier):
    """every fixture (plus data carrying & < > ' " and blanks): X12 -> XML is well formed; a loop element's
    first child segment is the first segment of that loop in the map and no loop element holds the loop's
    first segment twice (a repeated loop opens a fresh element); XML -> X12 gives back the same segments
    (modulo not-used elements, trailing empties and the ISA separator fields)"""
    import io
    import logging
    import os
    import re
    import tempfile
    import xml.etree.ElementTree as ET
    import pyx12.x12n_document
    import pyx12.params
    import pyx12.xmlx12_simple
    import pyx12.x12file
    logging.disable(logging.CRITICAL)
    n = 0
    failures = []
    for name, src in _docs():
        variants = [src]
        m = re.search(r'\nNM1\*([^*]*)\*([^*]*)\*([^*~]*)', src)
        if m:
            variants.append(src.replace(m.group(0), "\nNM1*%s*%s*A&B <EAST> O'NEIL \"Q\"" % (m.group(1), m.group(2)), 1))
        for v, text in enumerate(variants):
            n += 1
            fd_xml = io.StringIO()
            param = pyx12.params.params()
            param.set('charset', 'E')
            try:
                pyx12.x12n_document.x12n_document(param=param, src_file=io.StringIO(text), fd_997=None, fd_html=None, fd_xmldoc=fd_xml, xslt_files=None)
                xml = fd_xml.getvalue()
                root = ET.fromstring(xml)
            except Exception as e:
                failures.append({'input': {'fixture': name, 'variant': v}, 'detail': 'XML rendering failed / not well formed: %s: %s' % (type(e).__name__, e)})
                continue
            problems = []
            # loop nesting
            for loop in root.iter('loop'):
                segs = [c for c in loop if c.tag == 'seg']
                if not segs:
                    continue
                first = segs[0].get('id')
                again = [s for s in segs[1:] if s.get('id') == first]
                # a loop's first segment id may legitimately recur only if the map repeats that segment inside the loop;
                # the envelope/detail loops of the fixtures never do
                if again and loop.get('id') not in ('HEADER', 'FOOTER', 'DETAIL'):
                    problems.append('loop element %s holds its first segment %s %d times (a repeated loop must open a fresh element)' % (loop.get('id'), first, len(again) + 1))
            # round trip
            fd, path = tempfile.mkstemp(suffix='.xml')
            os.write(fd, xml.encode('utf-8'))
            os.close(fd)
            try:
                out = io.StringIO()
                pyx12.xmlx12_simple.convert(path, out)
                back = [s.format('~', '*', ':') for s in pyx12.x12file.X12Reader(io.StringIO(out.getvalue()))]
                orig = [s.format('~', '*', ':') for s in pyx12.x12file.X12Reader(io.StringIO(text))]
                if len(back) != len(orig):
                    problems.append('round trip has %d segments, source %d' % (len(back), len(orig)))
                else:
                    for a, b in zip(orig, back):
                        if a[:3] in ('ISA', 'IEA', 'GE*', 'SE*'):
                            continue
                        if a != b:
                            # elements marked not-used are dropped by design: accept b when it is a with some elements blanked
                            ea, eb = a[:-1].split('*'), b[:-1].split('*')
                            eb = eb + [''] * (len(ea) - len(eb))
                            if len(eb) != len(ea) or any(y not in (x, '') for x, y in zip(ea, eb)):
                                problems.append('segment changed by the round trip: %r -> %r' % (a, b))
                                break
            except Exception as e:
                problems.append('XML -> X12 failed: %s: %s' % (type(e).__name__, e))
            finally:
                os.unlink(path)
            if problems and len(failures) < 5:
                failures.append({'input': {'fixture': name, 'variant': v}, 'detail': '; '.join(problems[:3])})
    return {'function': 'x12xml_simple.seg / XMLWriter.push,pop,elem / xmlx12_simple.convert (document level)', 'evaluations': n,
            'bound': '%d fixture documents (+ a variant with & < > \' " in a name)' % len(_docs()), 'failures': failures}


def bounded_html_report(seed, tier):
    """HTML report on fixtures with injected single faults (values containing markup characters and the
    substrings GS / ISA that the report code special-cases): every source segment appears once, in order,
    with its line number; stripping markup and unescaping recovers the segment text; the injected fault's
    error message appears right after its segment"""
    import html as htmlmod
    import io
    import logging
    import re
    import pyx12.x12n_document
    import pyx12.params
    logging.disable(logging.CRITICAL)
    n = 0
    failures = []
    faults = [
        ('N4*', 1, 'KINGSTON SPRINGS AND SURROUNDINGS OF THE GREATER AREA', 'Element Error Code: 5'),
        ('N3*', 1, '<b>1 MAIN & "ELM" ST</b>' + 'X' * 60, 'Element Error Code: 5'),
        ('REF*', 2, 'ISA<GS>' + '9' * 60, 'Element Error Code: 5'),
        ('NM1*', 3, "O'NEIL & SONS <WEST>" + 'Y' * 50, 'Element Error Code: 5'),
    ]
    for name, src in _docs():
        for (prefix, pos, val, marker) in faults:
            segs = _segments(src)
            idx = next((i for i, s in enumerate(segs) if s.startswith(prefix) and i > 3), None)
            if idx is None:
                continue
            parts = segs[idx].split('*')
            if len(parts) <= pos:
                continue
            parts[pos] = val
            segs2 = list(segs)
            segs2[idx] = '*'.join(parts)
            text = '~\n'.join(segs2) + '~\n'
            n += 1
            fd_html = io.StringIO()
            param = pyx12.params.params()
            param.set('charset', 'E')
            try:
                pyx12.x12n_document.x12n_document(param=param, src_file=io.StringIO(text), fd_997=io.StringIO(), fd_html=fd_html, fd_xmldoc=None, xslt_files=None)
            except Exception as e:
                failures.append({'input': {'fixture': name, 'fault': prefix}, 'detail': 'validation raised %s: %s' % (type(e).__name__, e)})
                continue
            page = fd_html.getvalue()
            lines = page.split('\n')
            seg_lines = [(i, l) for i, l in enumerate(lines) if l.startswith('<span class="seg">')]
            problems = []
            if len(seg_lines) != len(segs2):
                problems.append('%d segment lines for %d source segments' % (len(seg_lines), len(segs2)))
            else:
                for k, (i, l) in enumerate(seg_lines):
                    plain = htmlmod.unescape(re.sub(r'<[^>]*>', '', l)).replace('\xa0', ' ')
                    want = '%i: %s~' % (k + 1, segs2[k])
                    if plain.rstrip('*~') != want.rstrip('*~'):
                        problems.append('line %d reads %r, source %r' % (k + 1, plain[:80], want[:80]))
                        break
                i_fault = seg_lines[idx][0]
                nxt = seg_lines[idx + 1][0] if idx + 1 < len(seg_lines) else len(lines)
                between = '\n'.join(lines[i_fault + 1:nxt])
                if marker not in between:
                    problems.append('no "%s" message next to the faulty %s segment (line %d)' % (marker, prefix, idx + 1))
            if problems and len(failures) < 5:
                failures.append({'input': {'fixture': name, 'fault': prefix + str(pos), 'value': val[:40]}, 'detail': '; '.join(problems[:3])})
    return {'function': 'error_html.gen_seg / err_iter (document level)', 'evaluations': n,
            'bound': '%d fixtures x %d injected faults' % (len(_docs()), len(faults)), 'failures': failures}
