"""BOUNDED native stand-in for the document-level clauses of C05 (verdict / errors / acknowledgement
agree), C06 (every acknowledgement is a well-formed interchange) and C07 (validation is total): the
whole pipeline (walker, map validation, error tree, visitors) is run on fixtures x a catalogue of
structural mutations x output sinks.  The walker and the visitors are NOT under a deductive contract;
this is labelled bounded and never counted as proved."""
from pyvc.contract import set_scope

set_scope('contracts.pipeline')

FIXTURES = ('simple_837p', '834_lui_id', '835id', 'mult_isa', 'ordinal', 'repeat_init_segment', 'blank1')


def _segments(text):
    return [p.lstrip('\n\r') for p in text.split('~')[:-1] if p.lstrip('\n\r') != '']


def mutations(segs, rnd, n_random):
    """structural mutation catalogue: (label, segment list)"""
    out = [('identity', list(segs))]
    n = len(segs)

    def idx_of(prefix, last=False):
        xs = [i for i, s in enumerate(segs) if s.startswith(prefix)]
        return (xs[-1] if last else xs[0]) if xs else None
    for pre in ('ST*', 'SE*', 'GS*', 'GE*', 'IEA*', 'HL*', 'CLM*', 'NM1*', 'LX*'):
        i = idx_of(pre)
        if i is None:
            continue
        out.append(('delete %s' % pre, segs[:i] + segs[i + 1:]))
        out.append(('duplicate %s' % pre, segs[:i + 1] + [segs[i]] + segs[i + 1:]))
        parts = segs[i].split('*')
        if len(parts) > 1:
            out.append(('non-numeric %s01' % pre, segs[:i] + ['*'.join([parts[0], 'X'] + parts[2:])] + segs[i + 1:]))
            out.append(('truncate %s' % pre, segs[:i] + [parts[0]] + segs[i + 1:]))
            out.append(('over-long value in %s' % pre, segs[:i] + ['*'.join(parts[:-1] + [parts[-1] + 'Q' * 90])] + segs[i + 1:]))
        if len(parts) > 2:
            out.append(('extra component in %s' % pre, segs[:i] + ['*'.join(parts[:2] + [parts[2] + ':::::::::X'] + parts[3:])] + segs[i + 1:]))
    out.append(('orphan IEA', segs + ['IEA*1*000000001']))
    out.append(('orphan SE', segs + ['SE*1*0001']))
    out.append(('orphan GE', segs + ['GE*1*1']))
    out.append(('truncated after half', segs[:max(3, n // 2)]))
    out.append(('blank segment', segs[:3] + ['   '] + segs[3:]))
    out.append(('unknown segment', segs[:5] + ['ZZZ*1*2'] + segs[5:]))
    out.append(('retag', segs[:6] + ['XX' + segs[6][2:]] + segs[7:]) if n > 7 else ('identity2', list(segs)))
    out.append(('reorder', segs[:5] + [segs[6], segs[5]] + segs[7:]) if n > 7 else ('identity3', list(segs)))
    out.append(('SE bad element', [('SE*%s*%s*X' % tuple(s.split('*')[1:3]) if s.startswith('SE*') and len(s.split('*')) >= 3 else s) for s in segs]))
    out.append(('ST02 too long', [(s + '99999999' if s.startswith('ST*') else s) for s in segs]))
    # faults confined to the group header's own elements (nothing else wrong)
    i = idx_of('GS*')
    if i is not None:
        parts = segs[i].split('*')
        if len(parts) > 5:
            out.append(('GS04 not a date', segs[:i] + ['*'.join(parts[:4] + ['20041328'] + parts[5:])] + segs[i + 1:]))
            out.append(('GS05 not a time', segs[:i] + ['*'.join(parts[:5] + ['2561'] + parts[6:])] + segs[i + 1:]))
    i = idx_of('ST*')
    if i is not None:
        parts = segs[i].split('*')
        if len(parts) > 2:
            out.append(('ST02 with a blank inside', segs[:i] + ['*'.join(parts[:2] + ['0 1'] + parts[3:])] + segs[i + 1:]))
    # composites cut short / with an empty leading or trailing component
    ci = [k for k, sg in enumerate(segs) if ':' in sg and not sg.startswith('ISA')]
    for k in ci[:3]:
        parts = segs[k].split('*')
        j = [x for x in range(len(parts)) if ':' in parts[x]][0]
        comp = parts[j].split(':')
        for lab, c2 in (('with four more components than defined', comp + ['X', 'Y', 'Z', 'W']),
                        ('cut after the first component', comp[:1] + ['']), ('cut to two components', comp[:2]),
                        ('first component emptied', [''] + comp[1:]), ('last component emptied', comp[:-1] + [''])):
            out.append(('composite %s in %s' % (lab, parts[0]), segs[:k] + ['*'.join(parts[:j] + [':'.join(c2)] + parts[j + 1:])] + segs[k + 1:]))
    # every transaction set damaged in all the ways a trailer can be (many distinct set-level codes at once)
    s2, first02 = [], None
    for sg in segs:
        parts = sg.split('*')
        if parts[0] == 'ST' and len(parts) > 2:
            if first02 is None:
                first02 = parts[2]
            s2.append('*'.join(parts[:2] + [first02] + parts[3:]))
            s2.append('ZZZ*1')
        elif parts[0] == 'SE' and len(parts) > 2:
            s2.append('SE*A7*%sXXXXXXXX' % parts[2])
        else:
            s2.append(sg)
    out.append(('every set: repeated ST02, unknown segment, non-numeric SE01, over-long SE02', s2))
    for k in range(n_random):
        s2 = list(segs)
        for _ in range(rnd.randint(1, 3)):
            op = rnd.choice(['del', 'dup', 'swap', 'val'])
            i = rnd.randrange(1, len(s2))
            if op == 'del' and len(s2) > 3:
                del s2[i]
            elif op == 'dup':
                s2.insert(i, s2[i])
            elif op == 'swap' and i + 1 < len(s2):
                s2[i], s2[i + 1] = s2[i + 1], s2[i]
            else:
                p = s2[i].split('*')
                j = rnd.randrange(len(p))
                p[j] = rnd.choice(['', 'X', '-', '99999999999999999999', 'A\x07', ' ', '20031301', p[j] + ' '])
                s2[i] = '*'.join(p)
        out.append(('random %d' % k, s2))
    return out


def read_envelope_errors(text):
    import io
    import pyx12.x12file
    r = pyx12.x12file.X12Reader(io.StringIO(text))
    errs = []
    segs = []
    for s in r:
        segs.append(s)
        errs += r.pop_errors()
    r.cleanup()
    errs += r.pop_errors()
    return segs, errs


class _Dedup(list):
    """failure list that keeps one example per signature (text of the detail up to the first digit run)"""

    def __init__(self):
        list.__init__(self)
        self.seen = set()

    def append(self, f):
        import re
        # one example per (what went wrong, which mutation class): a known finding is keyed by both, so the same symptom under
        # another mutation is still reported
        sig = re.sub(r'[0-9]+', '#', f['detail'])[:90] + ' @ ' + re.sub(r'[0-9]+', '#', str((f.get('input') or {}).get('mutation', '')))
        if sig in self.seen:
            return
        self.seen.add(sig)
        f['signature'] = sig
        list.append(self, f)

    def __len__(self):
        return 0          # the per-run cap of the callers does not apply: duplicates are dropped instead


def bounded_pipeline(seed, tier):
    import io
    import logging
    import random
    import pyx12.x12n_document
    import pyx12.params
    import pyx12.errors
    from pyx12.test.x12testdata import datafiles
    logging.disable(logging.CRITICAL)
    rnd = random.Random(seed)
    n = 0
    failures = _Dedup()
    known = []
    docs = [(k, datafiles[k]['source']) for k in FIXTURES if k in datafiles and 'source' in datafiles[k]]
    n_random = 6 if tier == 'quick' else 60
    texts = ['', 'hello', 'ISA', 'ISA*00*' + ' ' * 80, 'X' * 200]
    for t in texts:
        n += 1
        try:
            r = pyx12.x12n_document.x12n_document(param=pyx12.params.params(), src_file=io.StringIO(t), fd_997=io.StringIO(), fd_html=None, fd_xmldoc=None, xslt_files=None)
            if r is not False:
                failures.append({'input': {'text': t[:30]}, 'detail': 'non-X12 text accepted: %r' % (r,)})
        except pyx12.errors.X12Error:
            pass
        except Exception as e:
            failures.append({'input': {'text': t[:30]}, 'detail': 'C07: raised %s: %s' % (type(e).__name__, e)})
    identity_ok = {}
    for name, src in docs:
        segs = _segments(src)
        cases = [(label, s2, '~\n'.join(s2) + '~\n') for label, s2 in mutations(segs, rnd, n_random)]
        # the same document under other delimiters, with data that contains the ACKNOWLEDGEMENT's delimiters (~ * :): an echoed
        # value must not add or split elements or segments of the 997/999
        for k in [i for i, sg in enumerate(segs) if sg.split('*')[0] in ('NM1', 'REF', 'CLM', 'N3', 'BHT')][:3] + \
                [i for i, sg in enumerate(segs) if sg.split('*')[0] in ('ST', 'GS')][:2]:
            for bad in ('A*B', 'A~B', 'A:B', '*', '~~'):
                parts = segs[k].split('*')
                j = min(6 if parts[0] == 'GS' else 2, len(parts) - 1)
                s3 = segs[:k] + ['*'.join(parts[:j] + [parts[j] + 'Q' * 70 + '\0' + bad] + parts[j + 1:])] + segs[k + 1:]
                enc = ''
                for sg in s3:
                    if sg.startswith('ISA'):
                        t = sg[:-1].replace('*', '|') + '>'
                    else:
                        t = sg.replace('\0' + bad, '\0').replace('*', '|').replace(':', '>').replace('\0', bad)
                    enc += t + '!\n'
                cases.append(('value %r in %s under delimiters ! | >' % (bad, parts[0]), [x.replace('\0', '') for x in s3], enc))
        for label, s2, text in cases:
            sinks = [(True, False, False), (True, True, True)] if tier == 'quick' else [(True, False, False), (True, True, False), (True, False, True), (False, True, True)]
            for (w997, whtml, wxml) in sinks:
                n += 1
                f997 = io.StringIO() if w997 else None
                fhtml = io.StringIO() if whtml else None
                fxml = io.StringIO() if wxml else None
                inp = {'fixture': name, 'mutation': label, 'sinks': [w997, whtml, wxml]}
                try:
                    verdict = pyx12.x12n_document.x12n_document(param=pyx12.params.params(), src_file=io.StringIO(text), fd_997=f997,
                                                                fd_html=fhtml, fd_xmldoc=fxml, xslt_files=None)
                except pyx12.errors.EngineError as e:
                    if 'Map not found' in str(e) or 'Map file not found' in str(e):
                        continue
                    failures.append({'input': inp, 'detail': 'C07: raised EngineError: %s' % e}) if len(failures) < 8 else None
                    continue
                except pyx12.errors.X12Error:
                    continue
                except Exception as e:
                    if len(failures) < 8:
                        failures.append({'input': inp, 'detail': 'C07: raised %s: %s' % (type(e).__name__, str(e)[:100])})
                    continue
                if not isinstance(verdict, bool):
                    failures.append({'input': inp, 'detail': 'C07: verdict %r is not a boolean' % (verdict,)})
                    continue
                if not w997:
                    continue
                ack = f997.getvalue()
                if ack == '':
                    continue
                problems = []
                # C06: the acknowledgement is a complete, well formed interchange
                try:
                    asegs, aerrs = read_envelope_errors(ack)
                    env = [e for e in aerrs if e[0] in ('isa', 'gs', 'st')]
                    if env:
                        problems.append('C06: acknowledgement has envelope errors %r' % ([(e[0], e[1]) for e in env][:3],))
                    ids = [s.get_seg_id() for s in asegs]
                    if not ids or ids[0] != 'ISA' or ids[-1] != 'IEA':
                        no_id = any(x.split('*')[0].strip() == '' for x in s2)
                        problems.append('C06: acknowledgement is not a complete interchange (%s ... %s)%s' % (
                            ids[:1], ids[-1:], ' [the input holds a segment without an id]' if no_id else ''))
                except Exception as e:
                    problems.append('C06: acknowledgement does not parse: %s: %s' % (type(e).__name__, e))
                    asegs = []
                # C06: fed back to the validator the acknowledgement is accepted, except for values echoed from the input
                if (w997, whtml, wxml) == (True, False, False) and not problems:
                    try:
                        v2, errs2 = _validate_recording(ack)
                        bad = [e for e in errs2 if not (e[0] == 'ele' and _echo_refdes(e[3]))]
                        if v2 is not True and bad:
                            problems.append('C06: the acknowledgement fed back to the validator is rejected for more than echoed values: %r' % (
                                [(e[0], e[1], (e[2] or '')[:60]) for e in bad[:3]],))
                        if v2 is True and errs2:
                            problems.append('C06: feed-back verdict True although errors were recorded')
                    except pyx12.errors.EngineError as e:
                        problems.append('C06: the acknowledgement fed back selects no map: %s' % str(e)[:80])
                    except Exception as e:
                        problems.append('C06: validating the acknowledgement raised %s: %s' % (type(e).__name__, str(e)[:80]))
                # C06: values copied from the input never add or split elements or segments
                LIMITS = {'AK1': 2, 'AK2': 2, 'AK3': 4, 'AK4': 4, 'AK5': 6, 'AK9': 9, 'IK3': 4, 'IK4': 4, 'IK5': 6, 'ST': 3, 'SE': 2, 'GE': 2, 'IEA': 2, 'TA1': 5}
                over = [s.format('~', '*', ':') for s in asegs if len(s) > LIMITS.get(s.get_seg_id(), 99) and (s.get_seg_id() != 'AK2' or len(s) > 3)]
                unknown_ids = [s.get_seg_id() for s in asegs if s.get_seg_id() not in ('ISA', 'GS', 'ST', 'AK1', 'AK2', 'AK3', 'AK4', 'AK5', 'AK9', 'IK3', 'IK4', 'IK5', 'CTX', 'TA1', 'SE', 'GE', 'IEA')]
                if over:
                    problems.append('C06: an echoed value added elements to the acknowledgement: %r' % (over[:2],))
                if unknown_ids:
                    problems.append('C06: an echoed value split a segment of the acknowledgement (segment ids %r)' % (unknown_ids[:3],))
                # C05: verdict vs acknowledgement codes; group totals vs recount
                ak5 = [s.get_value('01') for s in asegs if s.get_seg_id() in ('AK5', 'IK5')]
                ak9 = [s for s in asegs if s.get_seg_id() == 'AK9']
                ta1 = [s for s in asegs if s.get_seg_id() == 'TA1']
                all_accept = all(c == 'A' for c in ak5) and all(s.get_value('01') == 'A' for s in ak9) and \
                    all(s.get_value('04') == 'A' for s in ta1)
                if verdict and not all_accept:
                    problems.append('C05: verdict True but the acknowledgement rejects something (AK5 %r)' % (ak5,))
                # a set / group marked accepted carries no note code: a code under AK5/IK5 (AK502..) or AK9 (AK905..) is an error
                # reported inside it (the trailer segment's own errors were once attached after the code had been fixed)
                noted = []
                for s in asegs:
                    if s.get_seg_id() == 'AK2':
                        noted = []
                    if s.get_seg_id() in ('AK3', 'IK3'):
                        noted.append(s.get_value('01'))
                    if s.get_seg_id() in ('AK5', 'IK5') and s.get_value('01') == 'A' and len(s) > 1:
                        # the input class of the listed finding is named in the text, so that the same symptom on any other input is new
                        late = [x for x in noted if x in ('GE', 'IEA', 'GS', 'ISA')]
                        why = (' [a later envelope segment is noted under the already closed set: %s]' % late[0]) if late and late == noted else ''
                        problems.append('C05: a set acknowledged A carries note codes: %s%s' % (s.format('~', '*', ':'), why))
                    if s.get_seg_id() == 'AK9' and s.get_value('01') == 'A' and len(s) > 4:
                        problems.append('C05: a group acknowledged A carries note codes: %s' % s.format('~', '*', ':'))
                # the converse, where it is owed: the interchange level is untouched and clean (so every error lies inside a group,
                # where AK9/AK5 must show it) - interchange-level errors are only acknowledged by a TA1 when ISA14 asks for one
                isa_same = [x for x in s2 if x[:3] in ('ISA', 'IEA')] == [x for x in segs if x[:3] in ('ISA', 'IEA')] and \
                    len([x for x in s2 if x.startswith('GS*')]) == len([x for x in segs if x.startswith('GS*')]) and \
                    len([x for x in s2 if x.startswith('GE*')]) == len([x for x in segs if x.startswith('GE*')])
                if verdict is False and all_accept and isa_same and s2[-1].startswith('IEA') and identity_ok.get(name) and (ak5 or ak9):
                    try:
                        _, serrs = read_envelope_errors(text)
                    except Exception:
                        serrs = [('isa',)]
                    if not [e for e in serrs if e[0] == 'isa']:
                        problems.append('C05: verdict False but the acknowledgement accepts every group and set (AK9 %r AK5 %r)' % (
                            [s.get_value('01') for s in ak9], ak5))
                if label == 'identity' and (w997, whtml, wxml) == (True, False, False):
                    identity_ok[name] = bool(verdict) and all_accept
                for s in ak9:
                    try:
                        recv, acc = int(s.get_value('03')), int(s.get_value('04'))
                        if acc > recv:
                            problems.append('C05: AK904 %d > AK903 %d' % (acc, recv))
                    except Exception:
                        problems.append('C05: AK9 counts not numeric: %s' % s.format('~', '*', ':'))
                ok_sets = len([c for c in ak5 if c in ('A', 'E')])
                if ak9 and sum(int(s.get_value('04')) for s in ak9 if (s.get_value('04') or '').isdigit()) != ok_sets:
                    n_st_src = len([x for x in s2 if x.split('*')[0] == 'ST'])
                    n_ak2 = len([x for x in asegs if x.get_seg_id() == 'AK2'])
                    open_groups = len([x for x in s2 if x.split('*')[0] == 'GS']) > len([x for x in s2 if x.split('*')[0] == 'GE'])
                    if not open_groups:
                        try:
                            open_groups = any((e[0] == 'gs' and e[1] == '3') or 'Unterminated Loop GS' in str(e[2]) for e in read_envelope_errors(text)[1])   # no GE where the group ends
                        except Exception:
                            pass
                    # the two input classes of the listed findings are named in the text, so that the same symptom on any other input is new
                    why = ' [an ST segment that opens no set node is counted]' if n_st_src > n_ak2 else \
                        (' [a group without its GE: totals are left at 0]' if open_groups else '')
                    problems.append('C05: sum of AK904 differs from the number of accepted AK5 (%d)%s' % (ok_sets, why))
                src_st = [s.split('*')[2] for s in s2 if s.startswith('ST*') and len(s.split('*')) > 2]
                ak2 = [s.get_value('02') for s in asegs if s.get_seg_id() == 'AK2']
                if [x.strip() for x in src_st] != ak2 and len(ak2) != 0 and label in ('identity',):
                    problems.append('C05: AK2 control numbers %r differ from the source sets %r' % (ak2, src_st))
                if problems and label.startswith('value ') and (' in GS under' in label or ' in ST under' in label):
                    c06 = [p for p in problems if p.startswith('C06')]
                    if c06:
                        # one class, keyed by the input: a CONTROL NUMBER (GS06 / ST02) that holds a delimiter of the acknowledgement
                        problems = [p for p in problems if not p.startswith('C06')] + [
                            "C06: a group/set control number that holds one of the acknowledgement's delimiters is copied raw into "
                            "GS06/AK102/AK202/GE02 and adds elements or splits segments there (%s)" % label]
                if problems:
                    key = '; '.join(sorted(set(p.split(':')[0] + ':' + p.split(':')[1][:40] for p in problems)))
                    if len(failures) < 8:
                        failures.append({'input': inp, 'detail': '; '.join(problems[:3]), 'class': label})
    return {'function': 'x12n_document (walker, map validation, error tree, 997/999/HTML/XML sinks)', 'evaluations': n,
            'bound': '%d fixtures x mutation catalogue (+%d seeded random mutations each) x sink subsets, seed %d' % (len(docs), n_random, seed),
            'failures': list(failures)[:120]}


ECHO_REFDES = ('ISA05', 'ISA06', 'ISA07', 'ISA08', 'ISA11', 'ISA12', 'ISA15', 'GS02', 'GS03', 'GS06', 'GS07', 'GE02', 'AK101', 'AK902', 'AK102', 'AK103', 'AK201', 'AK202', 'AK203', 'AK301', 'AK303', 'AK404', 'IK301', 'IK303', 'IK404', 'CTX01', 'CTX02')


def _echo_refdes(refdes):
    """positions of the acknowledgement that hold a value copied from the input"""
    return bool(refdes) and refdes.split('-')[0] in ECHO_REFDES


def _validate_recording(text):
    """run the real validator on `text` and record every error it reports to its error handler (the 997 writer is not used for
    a functional acknowledgement, so the errors are observed at err_handler's reporting methods) -> (verdict, [(kind, code, message, refdes)])"""
    import io
    import pyx12.error_handler as EH
    import pyx12.x12n_document
    import pyx12.params
    rec = []
    saved = {}

    def wrap(kind, name):
        orig = getattr(EH.err_handler, name)
        saved[name] = orig

        def f(self, err_cde, err_str, *a, **k):
            refdes = (a[1] if len(a) > 1 else k.get('refdes')) if kind == 'ele' else None
            rec.append((kind, err_cde, err_str, refdes))
            return orig(self, err_cde, err_str, *a, **k)
        setattr(EH.err_handler, name, f)
    for kind, name in (('isa', 'isa_error'), ('gs', 'gs_error'), ('st', 'st_error'), ('seg', 'seg_error'), ('ele', 'ele_error')):
        wrap(kind, name)
    try:
        v = pyx12.x12n_document.x12n_document(param=pyx12.params.params(), src_file=io.StringIO(text), fd_997=None, fd_html=None,
                                              fd_xmldoc=None, xslt_files=None)
    finally:
        for name, orig in saved.items():
            setattr(EH.err_handler, name, orig)
    return v, rec


def _only(tag, seed, tier):
    out = bounded_pipeline(seed, tier)
    fs = []
    for f in out['failures']:
        parts = [p for p in f['detail'].split('; ') if p.startswith(tag + ':')]
        if parts:
            g = dict(f)
            g['detail'] = '; '.join(parts)
            fs.append(g)
    out['failures'] = fs
    out['function'] += ' [%s clauses]' % tag
    return out


def bounded_pipeline_c05(seed, tier):
    return _only('C05', seed, tier)


def bounded_pipeline_c06(seed, tier):
    return _only('C06', seed, tier)


def bounded_pipeline_c07(seed, tier):
    return _only('C07', seed, tier)


def bounded_reencode(seed, tier):
    """BOUNDED native stand-in for the document-level clause of C12: re-encoding a document with other
    delimiters / line ends leaves the verdict and the acknowledgement body unchanged"""
    import io
    import logging
    import random
    import pyx12.x12n_document
    import pyx12.params
    from pyx12.test.x12testdata import datafiles
    logging.disable(logging.CRITICAL)
    rnd = random.Random(seed)
    n = 0
    failures = []

    def run(text):
        f = io.StringIO()
        v = pyx12.x12n_document.x12n_document(param=pyx12.params.params(), src_file=io.StringIO(text), fd_997=f, fd_html=None, fd_xmldoc=None, xslt_files=None)
        body = [s for s in f.getvalue().replace('\n', '').split('~') if s[:3] in ('AK1', 'AK2', 'AK3', 'AK4', 'AK5', 'AK9', 'IK3', 'IK4', 'IK5', 'TA1')]
        return v, body

    def encode(segs, st, et, sub, eol):
        out = ''
        for s in segs:
            if s.startswith('ISA'):
                t = s[:-1].replace('*', et) + sub
            else:
                t = s.replace('*', '\0').replace(':', '\1').replace('\0', et).replace('\1', sub)
            out += t + st + eol
        return out
    seen_sigs = set()
    docs = [(k, datafiles[k]['source']) for k in FIXTURES if k in datafiles and 'source' in datafiles[k]]
    triples = [('~', '*', ':'), ('!', '|', '>'), ('\n', '*', ':'), ('~', '+', '&'), ('$', '*', '<')]
    eols = ['', '\n', '\r\n']
    for name, src in docs:
        segs = _segments(src)
        variants = [('identity', segs)] + [(lab, s2) for lab, s2 in mutations(segs, rnd, 2)
                                            if lab.startswith(('over-long', 'extra component', 'non-numeric', 'delete NM1', 'random'))][:6 if tier == 'quick' else 40]
        for lab, s2 in variants:
            if any(any(c in s for c in '!|>+&$<') for s in s2):
                continue
            try:
                base = run(encode(s2, '~', '*', ':', '\n'))
            except Exception:
                continue
            for (st, et, sub) in triples[1:]:
                for eol in eols:
                    if st == '\n' and eol:
                        continue
                    n += 1
                    try:
                        got = run(encode(s2, st, et, sub, eol))
                    except Exception as e:
                        failures.append({'input': {'fixture': name, 'variant': lab, 'delimiters': [st, et, sub], 'eol': eol}, 'detail': 'C12: raised %s: %s' % (type(e).__name__, e)})
                        continue
                    if got != base:
                        diff = [(a, b) for a, b in zip(base[1], got[1]) if a != b][:2]
                        only_sep = got[0] == base[0] and len(got[1]) == len(base[1]) and \
                            all(a.replace(':', '').replace(sub, '') == b.replace(':', '').replace(sub, '') for a, b in zip(base[1], got[1]))
                        # K11 is the echo of an INPUT VALUE that holds more components than the map allows; any other dependence on the
                        # component separator (e.g. the acknowledgement's own composites) is a different violation
                        strip = lambda x: x.replace(':', '').replace(sub, '')
                        # (since fix a5ea4e2 the ':'-encoded document no longer quotes such a value in AK404 at all, because it holds the
                        # acknowledgement's own component separator, while the re-encoded one still does: same root cause, K4b)
                        k11 = lab.startswith('extra component') and got[0] == base[0] and len(got[1]) == len(base[1]) and all(
                            a == b or (strip(a) == strip(b) and ':::' in a and a[:3] in ('AK2', 'AK4', 'IK4', 'AK3')) or
                            (a[:3] in ('AK4', 'IK4') and b.startswith(a + '*') and sub * 3 in b) for a, b in zip(base[1], got[1]))
                        kind = 'an echoed composite value keeps the input component separator' if k11 else \
                            ('the acknowledgement body depends on the input component separator' if only_sep else 'results differ')
                        sig = (kind, lab)
                        if sig not in seen_sigs:
                            seen_sigs.add(sig)
                            failures.append({'input': {'fixture': name, 'variant': lab, 'delimiters': [st, et, sub], 'eol': eol},
                                             'detail': 'C12: %s: verdict %r -> %r; acknowledgement body differs at %r' % (kind, base[0], got[0], diff)})
    return {'function': 'x12n_document under re-encoding', 'evaluations': n,
            'bound': '%d fixtures x (identity + faulty variants) x 4 delimiter triples x line ends' % len(docs), 'failures': failures[:8]}
