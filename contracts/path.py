"""Contracts for pyx12/path.py (C17)."""
from pyvc.contract import contract, set_scope, Const
from pyvc.tys import *
from specs.path import *
from specs.prim import *

set_scope('contracts.path')
import os
_MAXLEN = 12 if os.environ.get('VERIF_TIER', 'quick') == 'thorough' else 10

contract('pyx12.path.X12Path.__init__',
         params={'self': Obj('pyx12.path.X12Path'), 'path_str': Str},
         split_len={'path_str': _MAXLEN},
         requires=['len(path_str) <= %d' % _MAXLEN],
         options={'abstract_vec_split': True},
         returns=NoneT,
         ensures=['(not wf_path(path_str)) or self.__repr__() == path_str',
                  "self.relative == (path_str[0:1] != '/')",
                  "(not wf_path(path_str)) or (not is_refdes(last_piece(body_of(path_str), '/'))) or "
                  "(self.seg_id, self.id_val, self.ele_idx, self.subele_idx) == refdes_parts(last_piece(body_of(path_str), '/'))",
                  "(not wf_path(path_str)) or is_refdes(last_piece(body_of(path_str), '/')) or "
                  "(self.seg_id is None and self.id_val is None and self.ele_idx is None and self.subele_idx is None)"],
         raises={'X12PathError': 'path_error(path_str)'},
         serves=['C17'])
