"""Contracts for pyx12/path.py (C17)."""
from pyvc.contract import contract, set_scope, Const
from pyvc.tys import *
from specs.path import *
from specs.prim import *

set_scope('contracts.path')
import os
_MAXLEN = 12 if os.environ.get('VERIF_TIER', 'quick') == 'thorough' else 10

contract('pyx12.path.X12Path.__init__',
         params={'self': Obj('pyx12.path.X12Path'), 'path_str': Str},
         split_len={'path_str': _MAXLEN},
         requires=['len(path_str) <= %d' % _MAXLEN],
         options={'abstract_vec_split': True},
         returns=NoneT,
         ensures=['(not wf_path(path_str)) or self.__repr__() == path_str',
                  "self.relative == (path_str[0:1] != '/')",
                  "(not wf_path(path_str)) or (not is_refdes(last_piece(body_of(path_str), '/'))) or "
                  "(self.seg_id, self.id_val, self.ele_idx, self.subele_idx) == refdes_parts(last_piece(body_of(path_str), '/'))",
                  "(not wf_path(path_str)) or is_refdes(last_piece(body_of(path_str), '/')) or "
                  "(self.seg_id is None and self.id_val is None and self.ele_idx is None and self.subele_idx is None)"],
         raises={'X12PathError': 'path_error(path_str)'},
         serves=['C17'])


# ---- bounded native safety net (C17): the same contract evaluated natively on generated path texts of ANY length -------------
def bounded_path(seed, tier):
    """X12Path(text) on the real class against the contract of this file for: every text over a boundary alphabet up to length 4
    (quick) / 5 (thorough), generated well-formed paths (0-4 loop ids, optional segment / qualifier / element / component,
    absolute and relative, trailing slash) and single-character corruptions of them - no length bound"""
    import itertools
    import random
    import pyx12.path
    import pyx12.errors
    rnd = random.Random(seed)
    alpha = ['/', 'A', 'B', '1', '0', '[', ']', '-', ' ', 'a']
    texts = set([''])
    for n in range(1, (4 if tier == 'quick' else 5) + 1):
        for t in itertools.product(alpha, repeat=n):
            texts.add(''.join(t))
    loops = ['2000A', '2300', '2400', 'ISA_LOOP', 'ST_LOOP', 'DETAIL', '2010BA', 'X']
    for _ in range(3000 if tier == 'quick' else 30000):
        p = '/' if rnd.random() < 0.5 else ''
        p += '/'.join(rnd.choice(loops) for _ in range(rnd.randint(0, 4)))
        last = ''
        if rnd.random() < 0.8:
            last = rnd.choice(['NM1', 'CLM', 'HL', 'REF', 'N1', 'SV1', ''])
            if rnd.random() < 0.4:
                last += '[%s]' % rnd.choice(['85', 'F8', '6R', 'XX1', ''])
            if rnd.random() < 0.7:
                last += rnd.choice(['01', '02', '09', '10', '15', '99', '1', '100'])
                if rnd.random() < 0.4:
                    last += '-%s' % rnd.choice(['1', '2', '10', '', '0'])
        if last:
            p = p + ('/' if p and not p.endswith('/') else '') + last
        elif rnd.random() < 0.3:
            p += '/'
        texts.add(p)
        if p and rnd.random() < 0.5:
            k = rnd.randrange(len(p))
            texts.add(p[:k] + rnd.choice(alpha + ['', '//']) + p[k + 1:])
    fails, n = [], 0
    for t in sorted(texts):
        n += 1
        want_err = path_error(t)
        try:
            x = pyx12.path.X12Path(t)
        except pyx12.errors.X12PathError:
            if not want_err and len(fails) < 8:
                fails.append({'input': {'path_str': t}, 'detail': 'X12PathError although the text has none of the two documented defects'})
            continue
        except Exception as e:
            if len(fails) < 8:
                fails.append({'input': {'path_str': t}, 'detail': 'raised %s: %s' % (type(e).__name__, str(e)[:80])})
            continue
        bad = None
        if want_err:
            bad = 'accepted although a qualifier / element index has no segment id'
        elif x.relative != (t[0:1] != '/'):
            bad = 'relative flag %r' % x.relative
        elif wf_path(t):
            last = last_piece(body_of(t), '/')
            if x.__repr__() != t:
                bad = 'prints back %r' % x.__repr__()
            elif is_refdes(last) and (x.seg_id, x.id_val, x.ele_idx, x.subele_idx) != refdes_parts(last):
                bad = 'designator parts %r, expected %r' % ((x.seg_id, x.id_val, x.ele_idx, x.subele_idx), refdes_parts(last))
            elif not is_refdes(last) and not (x.seg_id is None and x.id_val is None and x.ele_idx is None and x.subele_idx is None):
                bad = 'designator parts set for a path that names only loops'
        elif len(t) > 1 and t.endswith('/') and wf_path(t[:-1]) and not is_refdes(last_piece(body_of(t[:-1]), '/')):
            # a trailing slash after loop ids: "no segment" - the loops are kept, nothing else is set
            if x.__repr__() != t[:-1] or x.seg_id is not None or '' in x.loop_list:
                bad = 'a trailing slash changed the loop list: %r prints as %r' % (x.loop_list, x.__repr__())
        if bad and len(fails) < 8:
            fails.append({'input': {'path_str': t}, 'detail': bad})
    return {'function': 'pyx12.path.X12Path.__init__', 'evaluations': n,
            'bound': '%d texts: boundary alphabet to length %d, generated paths and their single-character corruptions' % (len(texts), 4 if tier == 'quick' else 5),
            'failures': fails}
