"""Allow-lists (with reasons) for the syntactic frame obligations of C18 and C12."""

# finding.rule -> list of (module, function-prefix, reason)
ALLOW_C18 = {
    'nondet': [
        ('error_997', 'error_997_visitor.visit_root_pre', 'date/time and generated control numbers of the acknowledgement envelope: the documented run-to-run difference'),
        ('error_999', 'error_999_visitor.visit_root_pre', 'date/time and generated control numbers of the acknowledgement envelope: the documented run-to-run difference'),
        ('error_html', 'error_html.header', 'the HTML date line: the documented run-to-run difference'),
        ('errh_xml', 'err_handler.__init__', 'name of a temporary file; never part of a result'),
    ],
    'hash-order': [
        ('decorators', 'memoize', 'frozenset only used as a hashable dictionary key; the decorator is not applied anywhere in the package (checked by rule cache-decorator)'),
    ],
}

C18_RULES = ('global-write', 'modconst-mut', 'default-mut', 'nondet', 'hash-order', 'reflection', 'cache-decorator')

ALLOW_C12 = {
    'delim-read': [
        ('rawx12file', '', 'the tokeniser: the one place that interprets the input delimiters (C01)'),
        ('x12file', 'X12Reader.__init__', 'copies the delimiters found by the tokeniser'),
        ('x12file', 'X12Reader.__iter__', 'builds Segment objects from raw lines with the input delimiters (C01)'),
        ('x12file', 'X12Base.get_term', 'accessor; its callers are checked individually'),
        ('x12file', 'X12Writer.', 'writes with the WRITER\'s own delimiters (C11), never the input\'s'),
        ('segment', '', 'Segment/Composite/Element: parse with the delimiters given by the caller, format with explicit ones (C01/C17)'),
        ('error_997', 'error_997_visitor.', 'fields set to the constants ~ * : in __init__ (the term argument is ignored); output delimiters are fixed'),
        ('error_999', 'error_999_visitor.', 'constant output delimiters'),
        ('error_html', 'error_html._seg_str', 'HTML rendering of the source text; HTML is not among the outputs C12 compares'),
        ('x12n_document', 'x12n_document', 'hands src.get_term() to the 997/999/HTML sinks, which ignore it (997/999) or only display it (HTML)'),
        ('x12context', '', 'data-node re-serialisation API (C10), not on the validation / acknowledgement path'),
        ('path', 'X12Path.', 'false positive of the name-based rule: __repr__ of a path object, no delimiter involved'),
        ('dataele', 'DataElements.debug_print', 'debug output only'),
        ('map_if', 'map_if.debug_print', 'debug output only'),
        ('map_if', 'loop_if.debug_print', 'debug output only'),
        ('map_if', 'segment_if.debug_print', 'debug output only'),
        ('map_if', 'element_if.debug_print', 'debug output only'),
        ('map_if', 'composite_if.debug_print', 'debug output only'),
    ],
}

ALLOW_C05 = {
    'errors-before-close': [],
}

ALLOW_C06 = {
    'direct-write': [
        ('error_997', 'error_997_visitor._write', 'the one write primitive of the 997 visitor: under contract (writes the segment once, counts it once)'),
    ],
}


def allowed(finding, table):
    for (mod, prefix, reason) in table.get(finding.rule, ()):
        if finding.module == mod and finding.qual.startswith(prefix):
            return reason
    return None
