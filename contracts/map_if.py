"""Contracts for element / composite / segment validation in pyx12/map_if.py (C15, C14 routing, C07)."""
from pyvc.contract import contract, set_scope, Const, abstract_type
from pyvc.tys import *
from specs.element import *
from specs.prim import *
import contracts.validation

set_scope('contracts.map_if')

contract('pyx12.validation.contains_control_character',
         params={'str_val': Str, 'charset': Str, 'icvn': Str},
         returns=Tup(Bool, Opt(Str)),
         ensures=['result[0] == has_control_char(str_val)', '(result[1] is None) == (not result[0])'],
         raises={},
         serves=['C15'])

abstract_type('ElemData', {
    'is_composite': dict(args=[], returns=Bool),
    'get_value': dict(args=[], returns=Str),
    '__repr__': dict(args=[], returns=Str),
}, note='a data element handed to validation: pyx12.segment.Element or a one-component Composite (read only)')
abstract_type('Regex', {'search': dict(args=[Str], returns=Opt(Opaque('Match')))}, note='compiled <regex> of an element definition')
abstract_type('Match', {}, note='match object (only its truthiness is used)')

ERRLOG = ListOf(Tup(Str, Opt(Str)))
ELEM_NODE = Obj('pyx12.map_if.element_if', name=Str, refdes=Str, usage=Str, seq=Int, data_ele=Str,
                valid_codes=ListOf(Str), external_codes=Opt(Str), rec=Opt(Opaque('Regex')), res=Opt(Str),
                parent=Obj('ext.ParentNode', usage=Str, composite=Bool),
                root=Obj('ext.MapRoot', data_elements=Obj('ext.DataElements'), ext_codes=Obj('ext.ExtCodes'),
                         param=Obj('ext.Params', charset=Str), icvn=Str))
ERRH = Obj('ext.ErrH', log=ERRLOG)

E_REQ = ['wf_element(self, type_list)', "self.root.param.get('charset') in ('B', 'E')", "self.root.icvn in ('00401', '00501')",
         'len(errh.log) == 0']

contract('pyx12.map_if.element_if.is_valid',
         self_type=ELEM_NODE,
         params={'elem': Opt(Opaque('ElemData')), 'errh': ERRH},
         type_cases=[('type_list/%d' % n, {'type_list': ListLit(*([Str] * n))}) for n in range(3)],
         returns=Bool,
         requires=E_REQ,
         ensures=['has_control_char(value_of(elem)) or reported(errh.log) == expected_codes(self, elem, type_list)',
                  'result == (len(errh.log) == 0)',
                  '(not has_control_char(value_of(elem))) or reported(errh.log) == expected_codes(self, elem, type_list)'],
         raises={},
         opaque=['spec_type', 'has_control_char'],
         split_on=['elem is None', 'elem is not None and elem.is_composite()',
                   "elem is not None and not elem.is_composite() and elem.get_value() == ''",
                   "elem is not None and not elem.is_composite() and elem.get_value() != '' and self.usage == 'N'",
                   "elem is not None and not elem.is_composite() and elem.get_value() != '' and self.usage != 'N' and self.rec is None",
                   "elem is not None and not elem.is_composite() and elem.get_value() != '' and self.usage != 'N' and self.rec is not None"],
         ghost={'probes': {'val': 'value_of(elem)', 'is_composite': 'elem is not None and elem.is_composite()',
                           'dt': "self.root.data_elements.get_by_elem_num(self.data_ele)['data_type']"},
                'search': {'__probes__/val': ['A\x07', '\x0785', 'ZZ\x09', '2003\x0a0101', ' \x07 ', 'A', '85', 'ZZ ', '20030101', '99999999'],
                           'self/.usage': ['R', 'S'],
                           '__probes__/dt': ['ID', 'AN', 'D8', 'N0', 'R', 'TM']}},
         build='build_element_is_valid',
         options={'append_only': ['errh.log'], 'append_only_type': Tup(Str, Opt(Str)), 'call_ensures': [0, 1]},
         serves=['C15', 'C07'],
         note='type_list: at most two entries (ground: every qualifier list of the shipped maps)')


# ---- native replay helpers ---------------------------------------------------------------
class NativeErrH(object):
    """error sink with the interface element/composite/segment validation uses; keeps (code, value)"""

    def __init__(self):
        self.log = []
        self.full = []
        self.seg_log = []

    def add_ele(self, node):
        pass

    def ele_error(self, err_cde, err_str, bad_value, refdes=None):
        self.log.append((err_cde, bad_value))
        self.full.append((err_cde, bad_value, refdes))

    def seg_error(self, err_cde, err_str, err_value=None, src_line=None):
        self.seg_log.append((err_cde, err_value))


_NODE_CACHE = {}


def _all_element_nodes():
    if 'nodes' not in _NODE_CACHE:
        import logging
        import pyx12.map_if
        import pyx12.params
        logging.disable(logging.CRITICAL)
        out = []
        for f in ('837.4010.X098.A1.xml', '834.5010.X220.A1.xml'):
            m = pyx12.map_if.load_map_file(f, pyx12.params.params())

            def walk(n):
                yield n
                pm = getattr(n, 'pos_map', None)
                if pm is not None:
                    for pos in sorted(pm):
                        for ch in pm[pos]:
                            yield from walk(ch)
                else:
                    for ch in getattr(n, 'children', None) or []:
                        yield from walk(ch)
            out += [n for n in walk(m) if type(n).__name__ == 'element_if']
        _NODE_CACHE['nodes'] = out
    return _NODE_CACHE['nodes']


def _lzv(d, name):
    if name in d:
        return d[name]
    if name + '?a' in d:
        return _lzv(d, name + '?A') if d[name + '?a'] else _lzv(d, name + '?B')
    return None


def build_element_is_valid(args):
    """pick the shipped element node that best matches the solver's model of the definition and
    validate the model's value against it (a different node of the same shape is still a valid witness:
    the native verdict comes from the real code and the executable spec, not from the model)"""
    import pyx12.segment
    sm = args.get('self', {})
    pr = args.get('__probes__', {})
    want_usage = sm.get('.usage')
    want_codes = bool(sm.get('.valid_codes'))
    want_dt = pr.get('dt')
    val = _lzv(pr, 'val')
    comp = pr.get('is_composite')
    best, score = None, -1
    for n in _all_element_nodes():
        s = 0
        s += 4 if n.usage == want_usage else 0
        s += 3 if n.data_type == want_dt else 0
        s += 2 if bool(n.valid_codes) == want_codes else 0
        s += 1 if (n.external_codes is None) else 0
        if s > score:
            best, score = n, s
    tl = args.get('type_list', {})
    n_tl = tl.get('.__len__', 0) if isinstance(tl, dict) else 0
    type_list = [tl.get('[%d]' % k) for k in range(n_tl)]
    if val is None and not comp:
        elem = None
    elif comp:
        elem = pyx12.segment.Composite('a:b', ':')
    else:
        elem = pyx12.segment.Element(val)
    errh = NativeErrH()
    return (lambda: best.is_valid(elem, errh, type_list)), (), {'self': best, 'elem': elem, 'errh': errh, 'type_list': type_list}



def bounded_segment_is_valid(seed, tier):
    """BOUNDED native stand-in for segment_if.is_valid / composite_if.is_valid (not yet under a
    deductive contract): on every segment node of shipped maps, seeded synthetic segments; checks
      (1) no exception, (2) result == no error reported, (3) syntax notes: an element error with code
      10 (E) / 2 (others) at the note's first position exactly for the notes is_syntax_valid (proved,
      C14) reports violated, (4) code 3 exactly when there are more elements than the map defines,
      (5) a required composite that is absent or empty draws exactly one code 2."""
    import logging
    import random
    import pyx12.map_if
    import pyx12.params
    import pyx12.segment
    from pyx12.syntax import is_syntax_valid
    logging.disable(logging.CRITICAL)
    rnd = random.Random(seed)
    files = ['837.4010.X098.A1.xml', '834.5010.X220.A1.xml'] if tier == 'quick' else \
        ['837.4010.X098.A1.xml', '834.5010.X220.A1.xml', '835.5010.X221.A1.xml', '270.4010.X092.A1.xml', '837.5010.X222.A1.xml', '277.5010.X214.xml']
    per_node = 6 if tier == 'quick' else 25
    n_eval = 0
    n_nodes = 0
    failures = []

    def walk(n):
        yield n
        pm = getattr(n, 'pos_map', None)
        if pm is not None:
            for pos in sorted(pm):
                for ch in pm[pos]:
                    yield from walk(ch)

    def sample_value(el):
        r = rnd.random()
        if r < 0.3:
            return ''
        if el.valid_codes and r < 0.8:
            return rnd.choice(el.valid_codes)
        dt = el.data_type
        pool = {'DT': ['20030101', '20031301'], 'D8': ['20030101', '2003010'], 'TM': ['1200', '2500'], 'R': ['12.5', '-'], 'RD8': ['20030101-20030102']}
        if dt in pool:
            return rnd.choice(pool[dt])
        if dt and dt[0] == 'N':
            return rnd.choice(['1', '12', 'x'])
        return rnd.choice(['A', 'AB12', 'X' * 3, 'Y '])

    for f in files:
        m = pyx12.map_if.load_map_file(f, pyx12.params.params())
        for node in walk(m):
            if type(node).__name__ != 'segment_if':
                continue
            n_nodes += 1
            nchild = node.get_child_count()
            for _ in range(per_node):
                L = rnd.choice([0, 1, max(nchild - 1, 0), nchild, nchild, nchild + 1]) if nchild else rnd.choice([0, 1])
                L = rnd.randint(0, nchild + 1) if rnd.random() < 0.5 else L
                vals = []
                for i in range(L):
                    ch = node.get_child_node_by_idx(i) if i < nchild else None
                    if ch is None:
                        vals.append('X')
                    elif ch.is_composite():
                        k = rnd.randint(0, ch.get_child_count() + 1)
                        vals.append(':'.join(sample_value(ch.get_child_node_by_idx(j)) if j < ch.get_child_count() else 'Z' for j in range(k)))
                    else:
                        vals.append(sample_value(ch))
                text = node.id + ''.join('*' + v for v in vals)
                seg = pyx12.segment.Segment(text, '~', '*', ':')
                errh = NativeErrH()
                n_eval += 1
                try:
                    res = node.is_valid(seg, errh)
                except Exception as e:
                    if len(failures) < 5:
                        failures.append({'input': {'map': f, 'node': node.get_path(), 'segment': text}, 'detail': 'raised %s: %s' % (type(e).__name__, e)})
                    continue
                problems = []
                if res != (len(errh.full) == 0):
                    problems.append('result %r but %d errors reported' % (res, len(errh.full)))
                want = sorted(('10' if syn[0] == 'E' else '2', syn[1]) for syn in node.syntax if not is_syntax_valid(seg, syn)[0])
                got = sorted((c, r) for (c, v, r) in errh.full if isinstance(r, int))
                if want != got:
                    problems.append('syntax-note errors %r, expected %r' % (got, want))
                too_many = [c for (c, v, r) in errh.full if c == '3' and isinstance(r, str) and r == '%02i' % (nchild + 1)]
                if (len(seg) > nchild) != (len(too_many) == 1):
                    problems.append('too-many-elements code 3: %r for %d elements of %d' % (too_many, len(seg), nchild))
                for i in range(nchild):
                    ch = node.get_child_node_by_idx(i)
                    if ch.is_composite() and ch.usage == 'R':
                        data = seg.get('%02i' % (i + 1))
                        empty = data is None or data.is_empty()
                        twos = [1 for (c, v, r) in errh.full if c == '2' and r == ch.refdes]
                        if empty != (len(twos) == 1):
                            problems.append('required composite %s empty=%r but %d code-2 errors' % (ch.refdes, empty, len(twos)))
                if problems and len(failures) < 5:
                    failures.append({'input': {'map': f, 'node': node.get_path(), 'segment': text}, 'detail': '; '.join(problems)})
    return {'function': 'pyx12.map_if.segment_if.is_valid (+ composite_if.is_valid)', 'evaluations': n_eval,
            'bound': '%d segment nodes of %d shipped maps x %d seeded synthetic segments each (seed %d)' % (n_nodes, len(files), per_node, seed),
            'failures': failures}



def bounded_element_is_valid(seed, tier):
    """the contract of element_if.is_valid evaluated natively: every element definition of two shipped maps (distinct by usage / type /
    lengths / code list / position) x a pool of candidate values (empty, absent, composite, lengths around min/max, signs and points,
    dates and times, trailing blanks, listed and unlisted codes) x qualifier lists: the reported codes are exactly the ones the
    definition implies (values with a control character are left to the listed known finding K4: only result == no error is checked)"""
    import random
    import pyx12.segment
    rnd = random.Random(seed)
    nodes, seen = [], set()
    for nd in _all_element_nodes():
        de = nd.root.data_elements.get_by_elem_num(nd.data_ele)
        key = (nd.usage, de['data_type'], de['min_len'], de['max_len'], bool(nd.valid_codes), nd.external_codes is not None,
               nd.seq == 1, nd.parent.is_composite(), getattr(nd.parent, 'usage', None), nd.rec is not None)
        if key not in seen:
            seen.add(key)
            nodes.append(nd)
    if tier == 'quick':
        rnd.shuffle(nodes)
        nodes = nodes[:120]
    fails, n = [], 0
    base = ['', 'A', 'AB', ' ', 'A ', 'AB  ', '1', '12', '-1', '1.5', '-', '.', '1-', '00', '20030101', '20031301', '030101', '2003010',
            '1200', '2500', '120000', '12000', '20030101-20030102', '20030101-2003', 'x', 'é', 'A\x07', '\n', 'ZZ', '~', '|']
    for nd in nodes:
        de = nd.root.data_elements.get_by_elem_num(nd.data_ele)
        pool = list(base) + ['9' * k for k in {max(de['min_len'] - 1, 0), de['min_len'], de['max_len'], de['max_len'] + 1}] + \
            ['A' * k for k in {max(de['min_len'] - 1, 0), de['min_len'], de['max_len'], de['max_len'] + 1}] + list(nd.valid_codes[:3])
        for v in [None, 'COMPOSITE'] + pool:
            for tl in ([], ['D8'], ['TM'], ['RD8', 'D8']):
                if tl and rnd.random() < 0.7:
                    continue
                elem = None if v is None else (pyx12.segment.Composite('a:b', ':') if v == 'COMPOSITE' else pyx12.segment.Element(v))
                errh = NativeErrH()
                n += 1
                try:
                    res = nd.is_valid(elem, errh, list(tl))
                except Exception as e:
                    if len(fails) < 8:
                        fails.append({'input': {'node': nd.refdes, 'value': v, 'type_list': tl}, 'detail': 'raised %s: %s' % (type(e).__name__, str(e)[:80])})
                    continue
                inp = {'node': nd.refdes, 'map': nd.root.id if hasattr(nd.root, 'id') else '', 'value': v, 'type_list': tl}
                if res != (len(errh.log) == 0) and len(fails) < 8:
                    fails.append({'input': inp, 'detail': 'result %r but %d errors reported' % (res, len(errh.log))})
                if isinstance(v, str) and v != 'COMPOSITE' and has_control_char(v):
                    continue
                got, want = reported(errh.log), expected_codes(nd, elem, list(tl))
                if tuple(got) != tuple(want) and len(fails) < 8:
                    names = ('1', '10', '4', '5', '6', '7', '8', '9')
                    fails.append({'input': inp, 'detail': 'reported codes %r, the definition implies %r' % (
                        [c for c, b in zip(names, got) if b], [c for c, b in zip(names, want) if b])})
    return {'function': 'pyx12.map_if.element_if.is_valid', 'evaluations': n,
            'bound': '%d element definitions (distinct by usage/type/lengths/codes/position) of 837.4010 and 834.5010 x value pool x qualifier lists' % len(nodes),
            'failures': fails}
