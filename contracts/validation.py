"""Contracts for pyx12/validation.py (C13; callee contracts for C15)."""
from pyvc.contract import contract, set_scope, Const
from pyvc.tys import *
from specs.types import *
from specs.prim import *

set_scope('contracts.validation')

ALL_TYPES = ('N', 'N0', 'N1', 'N2', 'N3', 'N4', 'N5', 'N6', 'N7', 'N8', 'N9', 'R', 'ID', 'AN', 'RD8', 'DT', 'D8', 'D6', 'TM', 'B')
TYPES = ['N', 'N0', 'N1', 'N2', 'N3', 'N4', 'N5', 'N6', 'N7', 'N8', 'N9', 'R', 'ID', 'AN',
         'RD8', 'DT', 'D8', 'D6', 'TM', 'B']

contract('pyx12.validation.match_re',
         params={'short_data_type': Str, 'val': Str},
         cases={'short_data_type': ['N', 'R']},
         returns=Bool,
         requires=["short_data_type in ('N', 'R')"],
         ensures=["result == (spec_int(val) if short_data_type == 'N' else spec_real(val))"],
         raises={},
         serves=['C13'])

contract('pyx12.validation.not_match_re',
         params={'short_data_type': Str, 'val': Str, 'charset': Str, 'icvn': Str},
         cases={'short_data_type': ['ID', 'AN', 'DT', 'TM'], 'charset': ['B', 'E'], 'icvn': ['00401', '00501']},
         returns=Bool,
         requires=["short_data_type in ('ID', 'AN', 'DT', 'TM')", "charset in ('B', 'E')"],
         ensures=["result == (not spec_string(val, charset, icvn)) if short_data_type in ('ID', 'AN')"
                  " else result == (not all_in(val, DIGITS))"],
         raises={},
         serves=['C13'])

contract('pyx12.validation.is_valid_time',
         params={'val': Str},
         split_len={'val': 9},
         returns=Bool,
         ensures=['result == spec_time(val)'],
         raises={},
         serves=['C13'])

contract('pyx12.validation.is_valid_date',
         params={'data_type': Str, 'val': Str},
         cases={'data_type': ['D8', 'D6', 'DT']},
         split_len={'val': 13},
         returns=Bool,
         requires=["data_type in ('D8', 'D6', 'DT')"],
         ensures=['result == spec_date(data_type, val)'],
         raises={},
         serves=['C13'])

contract('pyx12.validation.IsValidDataType',
         params={'str_val': Str, 'data_type': Str, 'charset': Str, 'icvn': Str},
         cases={'data_type': TYPES, 'charset': ['B', 'E'], 'icvn': ['00401', '00501']},
         returns=Bool,
         requires=["charset in ('B', 'E')", 'data_type in ALL_TYPES', "icvn in ('00401', '00501')"],
         ensures=['result == spec_type(str_val, data_type, charset, icvn)'],
         raises={},
         opaque=['spec_date', 'spec_time', 'spec_string'],
         tactics=[{'when': {'data_type': ['RD8']}, 'split_len': {'str_val': 18}}],
         serves=['C13'])
