"""Contracts for pyx12/validation.py (C13; callee contracts for C15)."""
from pyvc.contract import contract, set_scope, Const
from pyvc.tys import *
from specs.types import *
from specs.prim import *

set_scope('contracts.validation')

ALL_TYPES = ('N', 'N0', 'N1', 'N2', 'N3', 'N4', 'N5', 'N6', 'N7', 'N8', 'N9', 'R', 'ID', 'AN', 'RD8', 'DT', 'D8', 'D6', 'TM', 'B')
TYPES = ['N', 'N0', 'N1', 'N2', 'N3', 'N4', 'N5', 'N6', 'N7', 'N8', 'N9', 'R', 'ID', 'AN',
         'RD8', 'DT', 'D8', 'D6', 'TM', 'B']

contract('pyx12.validation.match_re',
         params={'short_data_type': Str, 'val': Str},
         cases={'short_data_type': ['N', 'R']},
         returns=Bool,
         requires=["short_data_type in ('N', 'R')"],
         ensures=["result == (spec_int(val) if short_data_type == 'N' else spec_real(val))"],
         raises={},
         serves=['C13'])

contract('pyx12.validation.not_match_re',
         params={'short_data_type': Str, 'val': Str, 'charset': Str, 'icvn': Str},
         cases={'short_data_type': ['ID', 'AN', 'DT', 'TM'], 'charset': ['B', 'E'], 'icvn': ['00401', '00501']},
         returns=Bool,
         requires=["short_data_type in ('ID', 'AN', 'DT', 'TM')", "charset in ('B', 'E')"],
         ensures=["result == (not spec_string(val, charset, icvn)) if short_data_type in ('ID', 'AN')"
                  " else result == (not all_in(val, DIGITS))"],
         raises={},
         serves=['C13'])

contract('pyx12.validation.is_valid_time',
         params={'val': Str},
         split_len={'val': 9},
         returns=Bool,
         ensures=['result == spec_time(val)'],
         raises={},
         serves=['C13'])

contract('pyx12.validation.is_valid_date',
         params={'data_type': Str, 'val': Str},
         cases={'data_type': ['D8', 'D6', 'DT']},
         split_len={'val': 13},
         returns=Bool,
         requires=["data_type in ('D8', 'D6', 'DT')"],
         ensures=['result == spec_date(data_type, val)'],
         raises={},
         serves=['C13'])

contract('pyx12.validation.IsValidDataType',
         params={'str_val': Str, 'data_type': Str, 'charset': Str, 'icvn': Str},
         cases={'data_type': TYPES, 'charset': ['B', 'E'], 'icvn': ['00401', '00501']},
         returns=Bool,
         requires=["charset in ('B', 'E')", 'data_type in ALL_TYPES', "icvn in ('00401', '00501')"],
         ensures=['result == spec_type(str_val, data_type, charset, icvn)'],
         raises={},
         opaque=['spec_date', 'spec_time', 'spec_string'],
         tactics=[{'when': {'data_type': ['RD8']}, 'split_len': {'str_val': 18}}],
         serves=['C13'])


# ---- bounded native safety net (labelled bounded; redundant with the proof while the functions are within the verifier's reach;
# it still decides when a rewrite takes a function outside the supported subset) ------------------------------------------------
def bounded_validation(seed, tier):
    """the contracts of this module evaluated natively on the real functions: every string over a boundary alphabet up to length
    3 (quick) / 4 (thorough), every single code point up to 0x2FF and a sample above, a grid of calendar dates / times /
    ranges, numbers with signs and points, seeded random strings - for every data type, both character sets and versions"""
    import itertools
    import random
    import pyx12.validation as V
    rnd = random.Random(seed)
    alpha = ['0', '1', '9', '-', '.', ' ', 'A', 'a', '~', '\x07', '\n', '+', 'é', '٢']
    pool = set([''])
    for n in range(1, (3 if tier == 'quick' else 4) + 1):
        for t in itertools.product(alpha[:10] if n > 2 else alpha, repeat=n):
            pool.add(''.join(t))
    for cp in list(range(0, 0x300)) + [0x660, 0x966, 0xFF10, 0x2028, 0x10000, 0x1D7CE]:
        pool.add(chr(cp))
        pool.add('1' + chr(cp))
    years = ['0000', '0001', '1899', '1900', '1999', '2000', '2004', '2023', '2100', '2400', '9999']
    mds = ['0000', '0001', '0100', '0101', '0131', '0132', '0228', '0229', '0230', '0430', '0431', '0631', '0930', '0931', '1130', '1131', '1231', '1232', '1301', '9999']
    dates = [y + md for y in years for md in mds] + [y[2:] + md for y in years for md in mds]
    pool.update(dates)
    pool.update(d + x for d in dates[:60] for x in ('\n', ' ', '0', 'A'))
    pool.update(a + '-' + b for a in dates[:220:7] for b in dates[5:220:11])
    pool.update(a + '-' + b + '-' + a for a in dates[:30:5] for b in dates[:30:7])
    hh = ['00', '01', '09', '12', '23', '24', '29', '99', '0A']
    mm = ['00', '01', '59', '60', '99', 'A0']
    times = [h + m for h in hh for m in mm] + [h + m + s for h in hh[:5] for m in mm[:3] for s in mm] + \
            [h + m + s + d for h in hh[:4] for m in mm[:2] for s in mm[:3] for d in ('0', '9', '00', '99', '999', 'A', '0A')]
    pool.update(times)
    pool.update(h + m + d for h in hh[:5] for m in mm[:3] for d in ('0', '5', '9', 'A', ' '))        # five characters: never a time
    for d in dates[:400:3] + times[:80:3]:
        for k in (0, len(d) // 2, len(d) - 1):
            for u in ('٢', '２', '²', '߁'):                                                   # digits only to str.isdigit/int
                pool.add(d[:k] + u + d[k + 1:])
    pool.update(t + x for t in times[:40] for x in ('\n', ' '))
    nums = ['-', '.', '-.', '1.', '.1', '-.1', '1.1', '1..1', '--1', '1-', '+1', '1e5', '1,000', '0x10', ' 1', '1 ', '1\n', '-0', '00', '٢', '1٢']
    pool.update(nums)
    for _ in range(2000 if tier == 'quick' else 20000):
        pool.add(''.join(rnd.choice(alpha + ['2', '3', '5', ':', 'Z', '_', '|']) for _ in range(rnd.randint(1, 14))))
    pool = sorted(pool)
    fails, n = [], 0

    def check(name, got_f, want_f, inp):
        nonlocal n
        n += 1
        try:
            got = got_f()
        except Exception as e:
            got = 'raised %s: %s' % (type(e).__name__, str(e)[:60])
        want = want_f()
        if got != want and len(fails) < 8:
            fails.append({'input': inp, 'detail': '%s returned %r, the value language of the type gives %r' % (name, got, want)})
    for v in pool:
        for t in ('N', 'R'):
            check('match_re', lambda: V.match_re(t, v), lambda: spec_int(v) if t == 'N' else spec_real(v), {'short_data_type': t, 'val': v})
        check('is_valid_time', lambda: V.is_valid_time(v), lambda: spec_time(v), {'val': v})
        for t in ('D8', 'D6', 'DT'):
            check('is_valid_date', lambda: V.is_valid_date(t, v), lambda: spec_date(t, v), {'data_type': t, 'val': v})
        for t in ALL_TYPES:
            for cs, icvn in (('B', '00401'), ('E', '00401'), ('B', '00501'), ('E', '00501')):
                check('IsValidDataType', lambda: V.IsValidDataType(v, t, cs, icvn), lambda: spec_type(v, t, cs, icvn),
                      {'str_val': v, 'data_type': t, 'charset': cs, 'icvn': icvn})
    return {'function': 'pyx12.validation (match_re, is_valid_time, is_valid_date, IsValidDataType)', 'evaluations': n,
            'bound': '%d strings (boundary alphabet to length %d, code points, date/time/range grids, seeded random) x all types x charsets x versions' % (
                len(pool), 3 if tier == 'quick' else 4), 'failures': fails}
