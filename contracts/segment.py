"""Contracts for pyx12/segment.py (C17 designator laws, C01 parse/format).  The receiver is a REAL
Segment object graph (Segment -> Composite -> Element); its shape is case split (up to 2 (quick tier) / 3 (thorough tier) elements of
up to 2 components): complete for those shapes, values and delimiters are unconstrained."""
import itertools
from pyvc.contract import contract, set_scope, Const
from pyvc.tys import *
from specs.segment import *
from specs.path import *
from specs.prim import *

set_scope('contracts.segment')


def element_t():
    return Obj('pyx12.segment.Element', value=Str)


def composite_t(m):
    return Obj('pyx12.segment.Composite', elements=ListLit(*[element_t() for _ in range(m)]),
               subele_term=StrN(1), subele_term_orig=StrN(1))


def segment_t(shape):
    return Obj('pyx12.segment.Segment', seg_id=Opt(Str), elements=ListLit(*[composite_t(m) for m in shape]),
               seg_term=StrN(1), ele_term=StrN(1), subele_term=StrN(1), repetition_term=StrN(1))


import os
_MAXN = 3 if os.environ.get('VERIF_TIER', 'quick') == 'thorough' else 2
SHAPES = [s for n in range(0, _MAXN + 1) for s in itertools.product((1, 2), repeat=n)]
SHAPE_CASES = [('shape %s' % (list(s),), {'self': segment_t(s)}) for s in SHAPES]

INL = ['pyx12.path.X12Path.__init__']

contract('pyx12.segment.Segment.get_value',
         type_cases=SHAPE_CASES,
         params={'ref_des': Str},
         split_len={'ref_des': 8},
         returns=Opt(Str),
         requires=['len(ref_des) <= 8', 'plain_refdes(ref_des)', 'seg_inv(self)', "self.seg_id != 'ISA'",
                   'refdes_parts(ref_des)[0] is None or refdes_parts(ref_des)[0] == self.seg_id'],
         ensures=['result == spec_get_value(view(self), self.subele_term, self.seg_id, ref_des)',
                  'view(self) == old(view(self))'],
         raises={},
         inline=INL,
         options={'abstract_vec_split': True},
         serves=['C17', 'C10'])

contract('pyx12.segment.Segment.set',
         type_cases=SHAPE_CASES,
         params={'ref_des': Str, 'val': Str},
         split_len={'ref_des': 7},
         returns=NoneT,
         requires=['len(ref_des) <= 7', 'plain_refdes(ref_des)', 'seg_inv(self)', "self.seg_id != 'ISA'",
                   'refdes_parts(ref_des)[2] is not None and refdes_parts(ref_des)[2] <= 5', 'refdes_parts(ref_des)[3] is None or refdes_parts(ref_des)[3] <= 4',
                   'self.subele_term not in val'],
         ensures=['view(self) == spec_set(old(view(self)), ref_des, val)', 'seg_inv(self)',
                  'self.seg_id == old(self.seg_id)'],
         raises={'EngineError': 'refdes_parts(ref_des)[0] is not None and refdes_parts(ref_des)[0] != self.seg_id'},
         inline=INL,
         options={'abstract_vec_split': True},
         serves=['C17', 'C10'],
         note='bounded in shape: segments of up to 3 elements x 2 components, designators up to element 05 / component 4')

_MAXTEXT = 8 if os.environ.get('VERIF_TIER', 'quick') == 'thorough' else 6

contract('pyx12.segment.Segment.__init__',
         params={'self': Obj('pyx12.segment.Segment'), 'seg_str': Str, 'seg_term': StrN(1), 'ele_term': StrN(1),
                 'subele_term': StrN(1), 'repetition_term': StrN(1)},
         split_len={'seg_str': _MAXTEXT},
         returns=NoneT,
         requires=['len(seg_str) <= %d' % _MAXTEXT],
         ensures=['(self.seg_id, view(self)) == spec_parse(seg_str, seg_term, ele_term, subele_term)',
                  'seg_inv(self)', 'self.seg_term == seg_term and self.ele_term == ele_term and self.subele_term == subele_term'],
         raises={},
         serves=['C01', 'C12'],
         note='bounded: segment texts of at most %d characters (any characters, any one-character delimiters)' % _MAXTEXT)

contract('pyx12.segment.Segment.format',
         type_cases=SHAPE_CASES,
         params={'seg_term': Opt(StrN(1)), 'ele_term': Opt(StrN(1)), 'subele_term': Opt(StrN(1))},
         returns=Str,
         requires=['seg_inv(self)', 'self.seg_id is not None', 'seg_term is not None and ele_term is not None and subele_term is not None'],
         ensures=['result == spec_format(self.seg_id, view(self), seg_term, ele_term, subele_term)',
                  'view(self) == old(view(self))'],
         raises={},
         serves=['C01', 'C12'],
         note='bounded in shape (see SHAPES); explicit delimiters')
