"""Contracts for pyx12/segment.py (C17 designator laws, C01 parse/format).  The receiver is a REAL
Segment object graph (Segment -> Composite -> Element); its shape is case split (up to 2 (quick tier) / 3 (thorough tier) elements of
up to 2 components): complete for those shapes, values and delimiters are unconstrained."""
import itertools
from pyvc.contract import contract, set_scope, Const
from pyvc.tys import *
from specs.segment import *
from specs.path import *
from specs.prim import *

set_scope('contracts.segment')


def element_t():
    return Obj('pyx12.segment.Element', value=Str)


def composite_t(m):
    return Obj('pyx12.segment.Composite', elements=ListLit(*[element_t() for _ in range(m)]),
               subele_term=StrN(1), subele_term_orig=StrN(1))


def segment_t(shape):
    return Obj('pyx12.segment.Segment', seg_id=Opt(Str), elements=ListLit(*[composite_t(m) for m in shape]),
               seg_term=StrN(1), ele_term=StrN(1), subele_term=StrN(1), repetition_term=StrN(1))


import os
_MAXN = 3 if os.environ.get('VERIF_TIER', 'quick') == 'thorough' else 2
SHAPES = [s for n in range(0, _MAXN + 1) for s in itertools.product((1, 2), repeat=n)]
SHAPE_CASES = [('shape %s' % (list(s),), {'self': segment_t(s)}) for s in SHAPES]
# Segment.set inlines the designator parser and pads: its three-element shapes cost over an hour of path exploration in the thorough
# tier, so there it gets the shapes of the quick tier plus the two uniform three-element ones
SET_SHAPES = [s for s in SHAPES if len(s) <= 2 or len(set(s)) == 1]
SET_SHAPE_CASES = [('shape %s' % (list(s),), {'self': segment_t(s)}) for s in SET_SHAPES]

INL = ['pyx12.path.X12Path.__init__']

contract('pyx12.segment.Segment.get_value',
         type_cases=SHAPE_CASES,
         params={'ref_des': Str},
         split_len={'ref_des': 8},
         returns=Opt(Str),
         requires=['len(ref_des) <= 8', 'plain_refdes(ref_des)', 'seg_inv(self)', "self.seg_id != 'ISA'",
                   'refdes_parts(ref_des)[0] is None or refdes_parts(ref_des)[0] == self.seg_id'],
         ensures=['result == spec_get_value(view(self), self.subele_term, self.seg_id, ref_des)',
                  'view(self) == old(view(self))'],
         raises={},
         inline=INL,
         options={'abstract_vec_split': True},
         serves=['C17', 'C10'])

contract('pyx12.segment.Segment.set',
         type_cases=SET_SHAPE_CASES,
         params={'ref_des': Str, 'val': Str},
         split_len={'ref_des': 7},
         returns=NoneT,
         requires=['len(ref_des) <= 7', 'plain_refdes(ref_des)', 'seg_inv(self)', "self.seg_id != 'ISA'",
                   'refdes_parts(ref_des)[2] is not None and refdes_parts(ref_des)[2] <= 5', 'refdes_parts(ref_des)[3] is None or refdes_parts(ref_des)[3] <= 4',
                   'self.subele_term not in val'],
         ensures=['view(self) == spec_set(old(view(self)), ref_des, val)', 'seg_inv(self)',
                  'self.seg_id == old(self.seg_id)'],
         raises={'EngineError': 'refdes_parts(ref_des)[0] is not None and refdes_parts(ref_des)[0] != self.seg_id'},
         inline=INL,
         options={'abstract_vec_split': True},
         serves=['C17', 'C10'],
         note='bounded in shape: segments of up to 3 elements x 2 components, designators up to element 05 / component 4')

_MAXTEXT = 8 if os.environ.get('VERIF_TIER', 'quick') == 'thorough' else 6

contract('pyx12.segment.Segment.__init__',
         params={'self': Obj('pyx12.segment.Segment'), 'seg_str': Str, 'seg_term': StrN(1), 'ele_term': StrN(1),
                 'subele_term': StrN(1), 'repetition_term': StrN(1)},
         split_len={'seg_str': _MAXTEXT},
         returns=NoneT,
         requires=['len(seg_str) <= %d' % _MAXTEXT],
         ensures=['(self.seg_id, view(self)) == spec_parse(seg_str, seg_term, ele_term, subele_term)',
                  'seg_inv(self)', 'self.seg_term == seg_term and self.ele_term == ele_term and self.subele_term == subele_term'],
         raises={},
         serves=['C01', 'C12'],
         note='bounded: segment texts of at most %d characters (any characters, any one-character delimiters)' % _MAXTEXT)

contract('pyx12.segment.Segment.format',
         type_cases=SHAPE_CASES,
         params={'seg_term': Opt(StrN(1)), 'ele_term': Opt(StrN(1)), 'subele_term': Opt(StrN(1))},
         returns=Str,
         requires=['seg_inv(self)', 'self.seg_id is not None', 'seg_term is not None and ele_term is not None and subele_term is not None'],
         ensures=['result == spec_format(self.seg_id, view(self), seg_term, ele_term, subele_term)',
                  'view(self) == old(view(self))'],
         raises={},
         serves=['C01', 'C12'],
         note='bounded in shape (see SHAPES); explicit delimiters')


# ---- bounded native safety net (C17/C10): designator laws on real segments of ANY shape ----------------------------------------
def bounded_segment_laws(seed, tier):
    """seeded real segments (0-8 elements of 1-4 components, empty values included) x designators (with / without segment id,
    element 01-10, component 1-5): get_value agrees with the view; set then get_value returns the value; every other position
    keeps its value; missing positions are padded with empty ones; a foreign segment id is refused (EngineError); get_value beyond
    the data is None"""
    import random
    import pyx12.segment
    import pyx12.errors
    rnd = random.Random(seed)
    fails, n = [], 0

    def grid(seg):
        return [[seg.elements[i][j].get_value() for j in range(len(seg.elements[i]))] for i in range(len(seg.elements))]
    vals = ['', 'A', 'B1', ' ', '0', 'x y', 'ÿ']
    for k in range(1500 if tier == 'quick' else 15000):
        ne = rnd.randint(0, 8)
        comps = [[rnd.choice(vals) for _ in range(rnd.randint(1, 4))] for _ in range(ne)]
        sid = rnd.choice(['NM1', 'REF', 'HL', 'SV1'])
        text = sid + ''.join('*' + ':'.join(c) for c in comps)
        seg = pyx12.segment.Segment(text, '~', '*', ':')
        e, c = rnd.randint(1, 10), rnd.choice([None, None, 1, 2, 3, 5])
        pre = rnd.choice(['', sid])
        rd = '%s%02d' % (pre, e) + ('' if c is None else '-%d' % c)
        inp = {'segment': text, 'ref_des': rd}
        n += 1
        try:
            g0 = grid(seg)
            got = seg.get_value(rd)
            if e > len(g0):
                want = None
            elif c is None:
                row = list(g0[e - 1])
                while row and row[-1] == '':
                    row.pop()
                want = ':'.join(row)
            else:
                want = g0[e - 1][c - 1] if c <= len(g0[e - 1]) else None
            if got != want:
                fails.append({'input': inp, 'detail': 'get_value returned %r, the view holds %r' % (got, want)}) if len(fails) < 8 else None
            if grid(seg) != g0:
                fails.append({'input': inp, 'detail': 'get_value changed the segment'}) if len(fails) < 8 else None
            val = rnd.choice(['V', 'W9', '', 'Z Z'])
            seg.set(rd, val)
            g1 = grid(seg)
            back = seg.get_value(rd)
            if back != val:
                fails.append({'input': dict(inp, val=val), 'detail': 'set then get_value returned %r' % (back,)}) if len(fails) < 8 else None
            # frame: every other position as before (positions that did not exist are empty)
            for i in range(max(len(g0), len(g1))):
                for j in range(max(len(g0[i]) if i < len(g0) else 0, len(g1[i]) if i < len(g1) else 0)):
                    if i == e - 1 and (c is None or j == c - 1):
                        continue
                    a = g0[i][j] if i < len(g0) and j < len(g0[i]) else ''
                    b = g1[i][j] if i < len(g1) and j < len(g1[i]) else ''
                    if a != b and len(fails) < 8:
                        fails.append({'input': dict(inp, val=val), 'detail': 'set changed position %02d-%d from %r to %r' % (i + 1, j + 1, a, b)})
            if len(g1) != max(len(g0), e) and len(fails) < 8:
                fails.append({'input': dict(inp, val=val), 'detail': 'set left %d elements, expected %d' % (len(g1), max(len(g0), e))})
            # foreign segment id
            try:
                seg.get_value('ZZ9%02d' % e if sid != 'ZZ9' else 'QQ%02d' % e)
                fails.append({'input': inp, 'detail': 'a designator naming another segment was accepted'}) if len(fails) < 8 else None
            except pyx12.errors.EngineError:
                pass
        except Exception as ex:
            if len(fails) < 8:
                fails.append({'input': inp, 'detail': 'raised %s: %s' % (type(ex).__name__, str(ex)[:80])})
    return {'function': 'pyx12.segment.Segment.get_value / set', 'evaluations': n,
            'bound': 'seeded segments of 0-8 elements x 1-4 components x designators to element 10 / component 5, seed %d' % seed, 'failures': fails}


# ---- bounded native safety net (C01/C12): parse / format of segment texts of ANY length under any delimiters -------------------
def bounded_segment_text(seed, tier):
    """seeded segment texts of 0-40 elements x 1-5 components (empty pieces, blanks, other delimiters' characters as data, ISA
    included) under 5 delimiter triples: the real Segment holds exactly spec_parse(text); format() is spec_format of it; parsing the
    formatted text gives the same view again"""
    import random
    import pyx12.segment
    rnd = random.Random(seed)
    fails, n = [], 0
    triples = [('~', '*', ':'), ('!', '|', '>'), ('\n', '^', '&'), ('\x1c', '\x1d', '\x1f'), ('$', '+', '<')]
    vals = ['', 'A', '12', ' ', 'x y', '~', '*', ':', '|', '>', 'é', '-', '.']
    for k in range(3000 if tier == 'quick' else 30000):
        st, et, sub = triples[k % len(triples)]
        ne = rnd.choice([0, 1, 2, 3, 5, 8, 16, 21, 22, 40])
        sid = rnd.choice(['NM1', 'ISA', 'REF', 'X', '', 'HL '])
        elems = []
        for _ in range(ne):
            comps = [rnd.choice([v for v in vals if v not in (st, et, sub)]) for _ in range(rnd.choice([1, 1, 1, 2, 3, 5]))]
            elems.append(sub.join(comps))
        text = sid + ''.join(et + e for e in elems) + rnd.choice(['', st])
        n += 1
        try:
            seg = pyx12.segment.Segment(text, st, et, sub)
            got = (seg.seg_id, [[c.get_value() for c in comp.elements] for comp in seg.elements])
            want = spec_parse(text, st, et, sub)
            if got != (want[0], want[1]):
                if len(fails) < 8:
                    fails.append({'input': {'text': text, 'delimiters': [st, et, sub]}, 'detail': 'parsed view %r, the text holds %r' % (got, want)})
                continue
            if seg.seg_id is None:
                continue
            out = seg.format(st, et, sub)
            wout = spec_format(want[0], want[1], st, et, sub)
            if out != wout and len(fails) < 8:
                fails.append({'input': {'text': text, 'delimiters': [st, et, sub]}, 'detail': 'format() gives %r, expected %r' % (out, wout)})
            seg2 = pyx12.segment.Segment(out, st, et, sub)
            v2 = [[c.get_value() for c in comp.elements] for comp in seg2.elements]
            if (seg2.seg_id, trim_view([list(trim_comp(c)) for c in v2])) != (want[0], trim_view([list(trim_comp(c)) for c in want[1]])) and len(fails) < 8:
                fails.append({'input': {'text': text, 'delimiters': [st, et, sub]}, 'detail': 'format then parse changed the data: %r' % (v2,)})
        except Exception as e:
            if len(fails) < 8:
                fails.append({'input': {'text': text, 'delimiters': [st, et, sub]}, 'detail': 'raised %s: %s' % (type(e).__name__, str(e)[:80])})
    return {'function': 'pyx12.segment.Segment.__init__ / format', 'evaluations': n,
            'bound': 'seeded texts of up to 40 elements x up to 5 components under 5 delimiter triples, seed %d' % seed, 'failures': fails}


def trim_comp(c):
    c = list(c)
    while len(c) > 1 and c[-1] == '':
        c.pop()
    return c
