"""Contracts for the tree editing API of pyx12/x12context.py (C10).  Children lists are case split on
their length (0..4 children, any of them tombstoned); map positions are unconstrained integers."""
from pyvc.contract import contract, set_scope, Const
from pyvc.tys import *
from specs.datatree import *

set_scope('contracts.x12context')


def child_t():
    return Obj('pyx12.x12context.X12DataNode', type=Opt(Str), x12_map_node=Obj('ext.MapNode', pos=Int))


def node_t(n):
    return Obj('pyx12.x12context.X12LoopDataNode', children=ListLit(*[child_t() for _ in range(n)]))


SHAPES = [('%d children' % n, {'self': node_t(n)}) for n in range(0, 5)]

contract('pyx12.x12context.X12DataNode._get_insert_idx',
         type_cases=SHAPES,
         params={'x12_node': Obj('ext.MapNode', pos=Int)},
         returns=Int,
         requires=['sorted_by_pos(live(self.children))'],
         ensures=['placement_ok(self.children, result, x12_node.pos)',
                  'same_nodes(self.children, old(live(self.children)))'],
         raises={},
         serves=['C10'],
         note='bounded in shape: up to 4 children')

contract('pyx12.x12context.X12DataNode._cleanup',
         type_cases=SHAPES,
         returns=NoneT,
         ensures=['same_nodes(self.children, old(live(self.children)))'],
         raises={},
         serves=['C10'])


def _positions(tree):
    """map positions of the direct live children of every loop node, as lists (document order)"""
    out = []

    def walk(n):
        ch = [c for c in getattr(n, 'children', []) if c.type is not None]
        if ch:
            out.append([c.x12_map_node.pos for c in ch])
        for c in ch:
            walk(c)
    walk(tree)
    return out


def _text(tree):
    return [s['segment'].format('~', '*', ':') if isinstance(s, dict) else s.format('~', '*', ':') for s in _segs(tree)]


def _segs(tree):
    return [x['segment'] for x in tree.iterate_segments()]


def bounded_tree_editing(seed, tier):
    """BOUNDED native stand-in for the API laws of C10 that are not under a deductive contract:
    on every 2300 / 2400 / 2000A tree of the 837 fixture, seeded sequences of API calls; checks
    exists/count/first/select agreement, set-then-get, delete removes exactly one, added segments keep the
    children sorted by map position, a copy shares nothing with its original, and the context reader's
    trees concatenate to the source (C09)."""
    import io
    import logging
    import random
    import pyx12.x12context
    import pyx12.params
    import pyx12.error_handler
    import pyx12.segment
    import pyx12.errors
    from pyx12.test.x12testdata import datafiles
    logging.disable(logging.CRITICAL)
    rnd = random.Random(seed)
    src_text = datafiles['simple_837p']['source']
    n = 0
    failures = []

    def fail(inp, detail):
        if len(failures) < 8:
            failures.append({'input': inp, 'detail': detail})

    def trees(loop_id):
        param = pyx12.params.params()
        errh = pyx12.error_handler.errh_null()
        src = pyx12.x12context.X12ContextReader(param, errh, io.StringIO(src_text))
        return [t for t in src.iter_segments(loop_id)]
    # C09: partition
    for loop_id in (None, '2300', '2400', '2000A', '2000B', '2010BA', 'ST_LOOP', 'GS_LOOP', 'ISA_LOOP'):
        n += 1
        try:
            out = []
            for t in trees(loop_id):
                for s in t.iterate_segments():
                    out.append(s['segment'].format('~', '*', ':'))
            want = [p.lstrip('\n\r') + '~' for p in src_text.split('~')[:-1] if p.strip()]
            if [x.rstrip('~') for x in out] != [w.rstrip('~') for w in want]:
                fail({'loop_id': loop_id}, 'C09: yielded segments (%d) are not the source segments (%d) in order' % (len(out), len(want)))
        except Exception as e:
            fail({'loop_id': loop_id}, 'C09: raised %s: %s' % (type(e).__name__, e))
    paths = ['CLM', 'CLM01', 'HI', 'REF[F8]', '2400', '2400/SV1', '2400/LX', '2400/DTP[472]', 'NOPE', '2400/NOPE', 'REF', 'DTP', '2310B/NM1', '2310B']
    rounds = 4 if tier == 'quick' else 30
    for loop_id in ('2300', '2000A'):
        for t0 in trees(loop_id):
            if getattr(t0, 'id', None) != loop_id:
                continue
            for r in range(rounds):
                t = t0.copy()
                n += 1
                inp = {'loop': loop_id, 'round': r}
                try:
                    # agreement of the query functions
                    for p in paths:
                        ex, ct = t.exists(p), t.count(p)
                        fs = t.first(p)
                        sel = list(t.select(p))
                        if ex != (ct > 0) or (fs is None) != (ct == 0) or len(sel) != ct or (sel and sel[0] is not fs):
                            fail(dict(inp, path=p), 'C10: exists/count/first/select disagree: exists=%r count=%d first=%r select=%d' % (ex, ct, fs is not None, len(sel)))
                    # set then get, other elements unchanged
                    before = _text(t)
                    if t.exists('CLM'):
                        v = 'V%d' % rnd.randrange(1000)
                        t.set_value('CLM01', v)
                        if t.get_value('CLM01') != v:
                            fail(inp, 'C10: set_value then get_value differ')
                        after = _text(t)
                        diff = [i for i, (a, b) in enumerate(zip(before, after)) if a != b]
                        if len(before) != len(after) or len(diff) > 1:
                            fail(inp, 'C10: set_value changed %d segments' % len(diff))
                    # copy independence
                    c = t.copy()
                    if c.exists('CLM'):
                        c.set_value('CLM02', '999.99')
                        if t.get_value('CLM02') == '999.99' and '999.99' not in ''.join(before):
                            fail(inp, 'C10: a copy shares segment data with its original')
                    # copy independence, also for a single component of a composite (set() edits the composite in place)
                    for cp in ('CLM05-1', 'HI01-2', '2400/SV101-2'):
                        if t.get_value(cp) is None:
                            continue
                        c = t.copy()
                        mine = _text(t)
                        c.set_value(cp, 'ZZZZZ')
                        if _text(t) != mine:
                            fail(dict(inp, path=cp), 'C10: editing a component on a copy changed the original')
                        if c.get_value(cp) != 'ZZZZZ':
                            fail(dict(inp, path=cp), 'C10: set_value then get_value differ on a component')
                        t.set_value(cp, 'YYYYY')
                        if 'YYYYY' in ''.join(_text(c)):
                            fail(dict(inp, path=cp), 'C10: editing a component on the original changed the copy')
                        break
                    # set_value/get_value address the same element, also through repeated sub loops where only a LATER instance
                    # holds the segment: either the call is refused and nothing changes, or get_value returns the new value and
                    # exactly one segment changed
                    lines = list(t.select('2400'))
                    if len(lines) >= 2 and r % 2 == 1:
                        if lines[0].exists('REF[6R]'):
                            lines[0].delete_node('REF[6R]')       # now only later service lines hold a REF*6R
                        if not lines[-1].exists('REF[6R]'):
                            lines[-1].add_segment(pyx12.segment.Segment('REF*6R*ONLYLAST', '~', '*', ':'))
                    for sp in ('2400/REF[6R]02', '2400/SV102', '2400/DTP[472]03', 'REF[F8]02', '2400/NOPE01'):
                        mine = _text(t)
                        try:
                            t.set_value(sp, 'NEWVAL')
                        except (pyx12.errors.X12PathError, pyx12.errors.EngineError):
                            if _text(t) != mine:
                                fail(dict(inp, path=sp), 'C10: set_value was refused but the tree changed')
                            continue
                        now = _text(t)
                        if t.get_value(sp) != 'NEWVAL':
                            fail(dict(inp, path=sp), 'C10: set_value succeeded but get_value of the same path returns %r' % (t.get_value(sp),))
                        if len(now) != len(mine) or len([1 for a, b in zip(mine, now) if a != b]) > 1:
                            fail(dict(inp, path=sp), 'C10: set_value changed more than the addressed segment')
                    # add a segment: children stay sorted by map position
                    for seg_text in rnd.sample(['HCP*00*7.11', 'REF*F5*6.11', 'AMT*F5*8.5', 'NTE*ADD*note', 'DTP*454*D8*20030101'], 3):
                        try:
                            t.add_segment(pyx12.segment.Segment(seg_text, '~', '*', ':'))
                        except pyx12.errors.X12PathError:
                            continue
                        for ps in _positions(t):
                            if ps != sorted(ps):
                                fail(dict(inp, added=seg_text), 'C10: after add_segment sibling map positions are not in order: %r' % ps)
                                break
                    # delete then add back: position law again (F14)
                    if t.exists('CLM') and r % 2 == 0:
                        clm = t.first('CLM').seg_data
                        cnt = len(_text(t))
                        t.delete_node('CLM')
                        if t.exists('CLM') or len(_text(t)) != cnt - 1:
                            fail(inp, 'C10: delete_node(CLM) did not remove exactly that segment')
                        t.add_segment(clm)
                        for ps in _positions(t):
                            if ps != sorted(ps):
                                fail(inp, 'C10: re-added first segment is misplaced: %r' % ps)
                                break
                    # delete a sub loop
                    if t.exists('2400'):
                        c0 = t.count('2400')
                        t.delete_node('2400')
                        if t.count('2400') != c0 - 1:
                            fail(inp, 'C10: delete_node(2400) changed the count from %d to %d' % (c0, t.count('2400')))
                except Exception as e:
                    fail(inp, 'C10: raised %s: %s' % (type(e).__name__, str(e)[:120]))
    return {'function': 'X12DataNode / X12LoopDataNode / X12SegmentDataNode API and X12ContextReader.iter_segments', 'evaluations': n,
            'bound': 'simple_837p fixture; %d rounds per 2300/2000A tree of seeded API call sequences; 9 loop ids for the partition clause' % rounds,
            'failures': failures}
