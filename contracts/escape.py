"""Contracts for the escaping functions (C19, C08).  SMT: exact for all strings of length <= 3
(complete length split); all lengths: Lean lemma lemmas/Escape.lean about the replace chain
(the chain of the REAL source is re-extracted on every run and compared with the chain the lemma
is about)."""
from pyvc.contract import contract, set_scope, Const
from pyvc.tys import *
from specs.escape import *

set_scope('contracts.escape')

contract('pyx12.error_html.escape_html_chars',
         params={'str_val': Str},
         split_len={'str_val': 3},
         returns=Str,
         requires=['len(str_val) <= 3'],
         ensures=['result == code_html(str_val)'],
         raises={},
         serves=['C19'])

contract('pyx12.xmlwriter.XMLWriter._escape_cont',
         params={'self': Opaque('XMLWriter'), 'text': Str},
         split_len={'text': 3},
         returns=Str,
         requires=['len(text) <= 3'],
         ensures=['result == code_xml_cont(text)'],
         raises={},
         serves=['C08'])

contract('pyx12.xmlwriter.XMLWriter._escape_attr',
         params={'self': Opaque('XMLWriter'), 'text': Str},
         split_len={'text': 3},
         returns=Str,
         requires=['len(text) <= 3'],
         ensures=['result == code_xml_attr(text)'],
         raises={},
         serves=['C08'])

# the replace chains the Lean theorems are about: (function, [(pattern, replacement), ...], theorem)
LEAN_CHAINS = [
    ('pyx12.error_html.escape_html_chars', [('&', '&amp;'), (' ', '&nbsp;'), ('>', '&gt;'), ('<', '&lt;')], 'Escape.html_chain'),
    ('pyx12.xmlwriter.XMLWriter._escape_cont', [('&', '&amp;'), ('<', '&lt;'), ('>', '&gt;')], 'Escape.cont_chain'),
    ('pyx12.xmlwriter.XMLWriter._escape_attr', [('&', '&amp;'), ("'", '&apos;'), ('<', '&lt;'), ('>', '&gt;')], 'Escape.attr_chain'),
]


# ---- bounded native safety net (C19 / C08): the three contracts on the real functions, strings of any content up to length 6 ---
def bounded_escape(seed, tier):
    """every string over {& < > ' \" space a ; # /} up to length 5 (quick) / 6 (thorough) plus every single code point below 0x3000:
    the real escaping functions return the character-wise code of the statement"""
    import itertools
    import pyx12.error_html
    import pyx12.xmlwriter
    alpha = ['&', '<', '>', "'", '"', ' ', 'a', ';', '#', '/']
    texts = ['']
    for n in range(1, (5 if tier == 'quick' else 6) + 1):
        texts += [''.join(t) for t in itertools.product(alpha, repeat=n)]
    texts += [chr(c) for c in range(0x3000)] + ['x' + chr(c) + 'y' for c in (0x26, 0x3c, 0x3e, 0x27, 0x20, 0xa0, 0x2028, 0x1F600)]
    w = pyx12.xmlwriter.XMLWriter.__new__(pyx12.xmlwriter.XMLWriter)
    fails, n = [], 0
    for t in texts:
        for name, f, spec in (('escape_html_chars', pyx12.error_html.escape_html_chars, code_html),
                              ('_escape_cont', w._escape_cont, code_xml_cont), ('_escape_attr', w._escape_attr, code_xml_attr)):
            n += 1
            try:
                got = f(t)
            except Exception as e:
                got = 'raised %s' % type(e).__name__
            if got != spec(t) and len(fails) < 8:
                fails.append({'input': {'text': t, 'function': name}, 'detail': '%s returned %r, the character code gives %r' % (name, got, spec(t))})
    return {'function': 'escape_html_chars / XMLWriter._escape_cont / XMLWriter._escape_attr', 'evaluations': n,
            'bound': '%d strings (10-letter alphabet to length %d, all single code points < 0x3000)' % (len(texts), 5 if tier == 'quick' else 6), 'failures': fails}
