"""Contracts for the escaping functions (C19, C08).  SMT: exact for all strings of length <= 3
(complete length split); all lengths: Lean lemma lemmas/Escape.lean about the replace chain
(the chain of the REAL source is re-extracted on every run and compared with the chain the lemma
is about)."""
from pyvc.contract import contract, set_scope, Const
from pyvc.tys import *
from specs.escape import *

set_scope('contracts.escape')

contract('pyx12.error_html.escape_html_chars',
         params={'str_val': Str},
         split_len={'str_val': 3},
         returns=Str,
         requires=['len(str_val) <= 3'],
         ensures=['result == code_html(str_val)'],
         raises={},
         serves=['C19'])

contract('pyx12.xmlwriter.XMLWriter._escape_cont',
         params={'self': Opaque('XMLWriter'), 'text': Str},
         split_len={'text': 3},
         returns=Str,
         requires=['len(text) <= 3'],
         ensures=['result == code_xml_cont(text)'],
         raises={},
         serves=['C08'])

contract('pyx12.xmlwriter.XMLWriter._escape_attr',
         params={'self': Opaque('XMLWriter'), 'text': Str},
         split_len={'text': 3},
         returns=Str,
         requires=['len(text) <= 3'],
         ensures=['result == code_xml_attr(text)'],
         raises={},
         serves=['C08'])

# the replace chains the Lean theorems are about: (function, [(pattern, replacement), ...], theorem)
LEAN_CHAINS = [
    ('pyx12.error_html.escape_html_chars', [('&', '&amp;'), (' ', '&nbsp;'), ('>', '&gt;'), ('<', '&lt;')], 'Escape.html_chain'),
    ('pyx12.xmlwriter.XMLWriter._escape_cont', [('&', '&amp;'), ('<', '&lt;'), ('>', '&gt;')], 'Escape.cont_chain'),
    ('pyx12.xmlwriter.XMLWriter._escape_attr', [('&', '&amp;'), ("'", '&apos;'), ('<', '&lt;'), ('>', '&gt;')], 'Escape.attr_chain'),
]
