"""Contracts for the error tree of pyx12/error_handler.py (C05): counting and acknowledgement codes.
The tree has fixed depth (gs -> st -> seg -> ele); its shape is case split (up to 2 children per level),
the error lists are of arbitrary length."""
import itertools
from pyvc.contract import contract, set_scope, Const
from pyvc.tys import *
from specs.errtree import *

set_scope('contracts.error_handler')

ERR2 = ListOf(Tup(Str, Str))
ERR3 = ListOf(Tup(Str, Str, Opt(Str)))


def ele_t():
    return Obj('pyx12.error_handler.err_ele', errors=ERR3)


def seg_t(ne):
    return Obj('pyx12.error_handler.err_seg', errors=ERR3, elements=ListLit(*[ele_t() for _ in range(ne)]))


def st_t(segs, ne=1):
    return Obj('pyx12.error_handler.err_st', errors=ERR2, elements=ListLit(*[ele_t() for _ in range(ne)]),
               children=ListLit(*[seg_t(k) for k in segs]), ack_code=Str, cur_line_se=Opt(Int), cur_line_st=Int)


def gs_t(sts):
    return Obj('pyx12.error_handler.err_gs', errors=ERR2, elements=ListLit(ele_t()),
               children=ListLit(*[st_t(s) for s in sts]), ack_code=Opt(Str), st_count_orig=Int, st_count_recv=Int,
               cur_line_ge=Opt(Int), cur_line_gs=Int)


SEG_SHAPES = [('seg with %d elements' % k, {'self': seg_t(k)}) for k in range(0, 3)]
ST_SHAPES = [('st with segments %s, %d own elements' % (list(s), ne), {'self': st_t(s, ne)})
             for n in range(0, 3) for s in itertools.product((0, 1, 2), repeat=n) for ne in (0, 1)]
GS_SHAPES = [('gs with sets %s' % ([list(x) for x in s],), {'self': gs_t(s)})
             for n in range(0, 3) for s in itertools.product(((), (1,)), repeat=n)]

contract('pyx12.error_handler.err_seg.err_count', type_cases=SEG_SHAPES, returns=Int,
         ensures=['(result > 0) == (stored_seg(self) > 0)', 'result >= 0'], raises={}, serves=['C05'])

contract('pyx12.error_handler.err_st.err_count', type_cases=ST_SHAPES, returns=Int,
         ensures=['(result > 0) == (stored_st(self) > 0)', 'result >= 0'], raises={}, serves=['C05'],
         inline=['pyx12.error_handler.err_seg.err_count'])

contract('pyx12.error_handler.err_st.close', type_cases=ST_SHAPES,
         params={'node': NoneT, 'seg_data': NoneT, 'src': Obj('ext.Src', cur_line=Int)},
         returns=NoneT,
         ensures=["(self.ack_code == 'A') == (stored_st(self) == 0)", "self.ack_code in ('A', 'R')"],
         raises={}, serves=['C05'],
         inline=['pyx12.error_handler.err_seg.err_count', 'pyx12.error_handler.err_st.err_count'])

contract('pyx12.error_handler.err_gs._get_ack_code', type_cases=GS_SHAPES, returns=Str,
         ensures=["(result == 'A') == (stored_gs(self) == 0)", "result in ('A', 'R')"],
         raises={}, serves=['C05'],
         inline=['pyx12.error_handler.err_seg.err_count', 'pyx12.error_handler.err_st.err_count'])

contract('pyx12.error_handler.err_gs.count_failed_st', type_cases=GS_SHAPES, returns=Int,
         ensures=['result == len(self.children) - accepted_sets(self)'],
         raises={}, serves=['C05'])
