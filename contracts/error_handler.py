"""Contracts for the error tree of pyx12/error_handler.py (C05): counting and acknowledgement codes.
The tree has fixed depth (gs -> st -> seg -> ele); its shape is case split (up to 2 children per level),
the error lists are of arbitrary length."""
import itertools
from pyvc.contract import contract, set_scope, Const
from pyvc.tys import *
import contracts.syntax      # abstract Segment
from specs.errtree import *
from specs.prim import int_or_none

set_scope('contracts.error_handler')

ERR2 = ListOf(Tup(Str, Str))
ERR3 = ListOf(Tup(Str, Str, Opt(Str)))


def ele_t():
    return Obj('pyx12.error_handler.err_ele', errors=ERR3)


def seg_t(ne):
    return Obj('pyx12.error_handler.err_seg', errors=ERR3, elements=ListLit(*[ele_t() for _ in range(ne)]))


def st_t(segs, ne=1):
    return Obj('pyx12.error_handler.err_st', errors=ERR2, elements=ListLit(*[ele_t() for _ in range(ne)]),
               children=ListLit(*[seg_t(k) for k in segs]), ack_code=Str, cur_line_se=Opt(Int), cur_line_st=Int)


def gs_t(sts):
    return Obj('pyx12.error_handler.err_gs', errors=ERR2, elements=ListLit(ele_t()),
               children=ListLit(*[st_t(s) for s in sts]), ack_code=Opt(Str), st_count_orig=Int, st_count_recv=Int,
               cur_line_ge=Opt(Int), cur_line_gs=Int)


SEG_SHAPES = [('seg with %d elements' % k, {'self': seg_t(k)}) for k in range(0, 3)]
ST_SHAPES = [('st with segments %s, %d own elements' % (list(s), ne), {'self': st_t(s, ne)})
             for n in range(0, 3) for s in itertools.product((0, 1, 2), repeat=n) for ne in (0, 1)]
GS_SHAPES = [('gs with sets %s' % ([list(x) for x in s],), {'self': gs_t(s)})
             for n in range(0, 3) for s in itertools.product(((), (1,)), repeat=n)]

contract('pyx12.error_handler.err_seg.err_count', type_cases=SEG_SHAPES, returns=Int,
         ensures=['(result > 0) == (stored_seg(self) > 0)', 'result >= 0'], raises={}, build='build_seg_count', serves=['C05'])

contract('pyx12.error_handler.err_st.err_count', type_cases=ST_SHAPES, returns=Int,
         ensures=['(result > 0) == (stored_st(self) > 0)', 'result >= 0'], raises={}, build='build_st_count', serves=['C05'],
         inline=['pyx12.error_handler.err_seg.err_count'])

contract('pyx12.error_handler.err_st.close', type_cases=ST_SHAPES,
         params={'node': NoneT, 'seg_data': NoneT, 'src': Obj('ext.Src', cur_line=Int)},
         returns=NoneT,
         ensures=["(self.ack_code == 'A') == (stored_st(self) == 0)", "self.ack_code in ('A', 'R')"],
         raises={}, build='build_st_close', serves=['C05'],
         inline=['pyx12.error_handler.err_seg.err_count', 'pyx12.error_handler.err_st.err_count'])

contract('pyx12.error_handler.err_gs._get_ack_code', type_cases=GS_SHAPES, returns=Str,
         ensures=["(result == 'A') == (stored_gs(self) == 0)", "result in ('A', 'R')"],
         raises={}, build='build_gs_ack', serves=['C05'],
         inline=['pyx12.error_handler.err_seg.err_count', 'pyx12.error_handler.err_st.err_count'])

contract('pyx12.error_handler.err_gs.count_failed_st', type_cases=GS_SHAPES, returns=Int,
         ensures=['result == len(self.children) - accepted_sets(self)'],
         raises={}, build='build_gs_failed', serves=['C05'])

# the verdict side of C05: x12n_document answers False exactly when errh.get_error_count() > 0; at group level that count is
# positive exactly when an error is stored at or below the group - the same condition under which _get_ack_code answers 'R'
contract('pyx12.error_handler.err_gs.get_error_count', type_cases=GS_SHAPES, returns=Int,
         ensures=['(result > 0) == (stored_gs(self) > 0)', 'result >= 0'],
         raises={}, build='build_gs_count', serves=['C05'],
         inline=['pyx12.error_handler.err_seg.err_count', 'pyx12.error_handler.err_st.err_count', 'pyx12.error_handler.err_st.get_error_count',
                 'pyx12.error_handler.err_ele.get_error_count', 'pyx12.error_handler.err_ele.err_count'])

_GS_SMALL = [(), ((),), ((1,),), ((), (1,))]


def isa_t(gss):
    return Obj('pyx12.error_handler.err_isa', errors=ERR2, elements=ListLit(ele_t()), children=ListLit(*[gs_t(g) for g in gss]))


ISA_SHAPES = [('isa with groups %s' % ([[list(x) for x in g] for g in s],), {'self': isa_t(s)})
              for n in range(0, 3) for s in itertools.product(_GS_SMALL, repeat=n)]
ROOT_SHAPES = [('root with interchanges %s' % (list(s),), {'self': Obj('pyx12.error_handler.err_handler', children=ListLit(*[isa_t(i) for i in s]))})
               for n in range(0, 3) for s in itertools.product(((), (((1,),),)), repeat=n)]

contract('pyx12.error_handler.err_isa.get_error_count', type_cases=ISA_SHAPES, returns=Int,
         ensures=['(result > 0) == (stored_isa(self) > 0)', 'result >= 0'],
         raises={}, build='build_isa_count', serves=['C05'])

contract('pyx12.error_handler.err_handler.get_error_count', type_cases=ROOT_SHAPES, returns=Int,
         ensures=['(result > 0) == (stored_root(self) > 0)', 'result >= 0'],
         raises={}, build='build_root_count', serves=['C05'],
         note='the verdict of x12n_document is `valid and errh.get_error_count() == 0`: zero exactly when no error tuple is stored anywhere in the tree')


_GS_CLOSE_ENS = ["(self.ack_code == 'A') == (stored_gs(self) == 0)", "self.ack_code in ('A', 'R')",
                 'self.st_count_recv == src.st_count', 'self.cur_line_ge == src.cur_line']

contract('pyx12.error_handler.err_gs.close', type_cases=GS_SHAPES,
         params={'node': NoneT, 'seg_data': Opt(Opaque('Segment')), 'src': Obj('ext.Src', cur_line=Int, st_count=Int)},
         returns=NoneT,
         requires=["seg_data is None or seg_data.get_seg_id() == 'GE'"],
         ensures=_GS_CLOSE_ENS + ['seg_data is not None or self.st_count_orig == 0',
                                  "seg_data is None or self.st_count_orig == (0 if int_or_none(seg_data.get_value('GE01')) is None "
                                  "else int_or_none(seg_data.get_value('GE01')))"],
         raises={}, build='build_gs_close', ghost={'search': {'__probes__/ge01': ['2', '-3', 'x', '', None], '__probes__/seg_none': [False, True], 'src/.st_count': [0, 3]}}, serves=['C05'],
         note='closing a group fixes AK901 (A exactly when nothing is stored below), AK902 (GE01 when it is an integer literal, else 0) '
              'and AK903 (the reader\'s count of sets received); no exception for any GE.  The precondition is the guard of the only call '
              'site (x12n_document.py: `elif seg.get_seg_id() == \'GE\'`), which is not itself under contract: unchecked assumption')


# ---- native replay: a real error tree in the shape and with the contents of the counter-model ----
from contracts.x12file import _opt, _lazy

_CHILD = {'root': 'isa', 'isa': 'gs', 'gs': 'st', 'st': 'seg', 'seg': None, 'ele': None}


class _Src(object):
    def __init__(self, cur_line, st_count):
        self.cur_line, self.st_count = cur_line, st_count

    def get_cur_line(self):
        return self.cur_line


def native_tree(state, level, prefix=''):
    import pyx12.error_handler as E
    cls = {'root': E.err_handler, 'isa': E.err_isa, 'gs': E.err_gs, 'st': E.err_st, 'seg': E.err_seg, 'ele': E.err_ele}[level]
    o = cls.__new__(cls)
    names = set()
    for k in state:
        if k.startswith(prefix + '.'):
            rest = k[len(prefix) + 1:]
            if '.' not in rest and '[' not in rest:
                names.add(rest.split('?')[0])
    for n in names:
        if n != 'errors':
            setattr(o, n, _lazy(state, prefix + '.' + n))
    if level != 'root':
        o.errors = [tuple(_opt(x) for x in e) for e in (state.get(prefix + '.errors') or [])]
    if level in ('isa', 'gs', 'st', 'seg'):
        o.elements = [native_tree(state, 'ele', '%s.elements[%d]' % (prefix, k)) for k in range(int(state.get(prefix + '.elements.__len__', 0) or 0))]
    if _CHILD[level]:
        o.children = [native_tree(state, _CHILD[level], '%s.children[%d]' % (prefix, k)) for k in range(int(state.get(prefix + '.children.__len__', 0) or 0))]
    return o


def _tree_builder(level, meth):
    def build(args):
        o = native_tree(args.get('self', {}), level)
        return (lambda: getattr(o, meth)()), (), {'self': o}
    return build


build_gs_ack = _tree_builder('gs', '_get_ack_code')
build_gs_failed = _tree_builder('gs', 'count_failed_st')
build_gs_count = _tree_builder('gs', 'get_error_count')
build_isa_count = _tree_builder('isa', 'get_error_count')
build_root_count = _tree_builder('root', 'get_error_count')
build_st_count = _tree_builder('st', 'err_count')
build_seg_count = _tree_builder('seg', 'err_count')


def build_st_close(args):
    o = native_tree(args.get('self', {}), 'st')
    src = _Src((args.get('src') or {}).get('.cur_line', 0), 0)
    return (lambda: o.close(None, None, src)), (), {'self': o, 'node': None, 'seg_data': None, 'src': src}


def build_gs_close(args):
    import pyx12.segment
    o = native_tree(args.get('self', {}), 'gs')
    pr = args.get('__probes__', {})
    ge01 = pr.get('ge01', '1')
    seg = None if pr.get('seg_none') else pyx12.segment.Segment('GE' + ('' if ge01 is None else '*%s*1' % ge01), '~', '*', ':')
    s = args.get('src') or {}
    src = _Src(s.get('.cur_line', 0), s.get('.st_count', 0))
    return (lambda: o.close(None, seg, src)), (), {'self': o, 'node': None, 'seg_data': seg, 'src': src}
