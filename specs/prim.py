"""Spec primitives: native definitions (used by replay and by the CPython cross-check).
Their symbolic meaning is in pyvc/prims.py; the two are compared on seeded inputs."""


def all_in(s, chars):
    """every character of s is one of chars"""
    for c in s:
        if c not in chars:
            return False
    return True


def count_of(s, c):
    """number of occurrences of the single character c in s"""
    n = 0
    for x in s:
        if x == c:
            n += 1
    return n


def digits_value(s):
    """positional value of a non-empty string of ASCII digits"""
    v = 0
    for c in s:
        v = v * 10 + (ord(c) - 48)
    return v


def implies(a, b):
    return (not a) or b


def iff(a, b):
    return bool(a) == bool(b)


def in_lang(s, pattern):
    """s (the whole string) is in the regular language `pattern` (plain regex syntax,
    '.' matches every character, no anchors needed)"""
    import re
    return re.fullmatch(pattern, s, re.S) is not None


def any_in(s, chars):
    """some character of s is one of chars"""
    for c in s:
        if c in chars:
            return True
    return False


def int_or_none(s):
    """python int(s), or None when s is absent (None) or int() rejects the text"""
    if s is None:
        return None
    try:
        return int(s)
    except ValueError:
        return None


def seq_filter_map(lst, pred, proj):
    """[proj(x) for x in lst if pred(x)]  (a monoid homomorphism on lists)"""
    return [proj(x) for x in lst if pred(x)]


def seq_fold(lst, step, init):
    """left fold: step(...step(step(init, lst[0]), lst[1])..., lst[-1])"""
    s = init
    for x in lst:
        s = step(s, x)
    return s


def seg_val(seg):
    """the current value of a (mutable) segment object, as logged by the output model"""
    return seg


def last_piece(s, sep):
    """the last of the sep-separated pieces of s"""
    return s.split(sep)[-1]


def head_text(s, sep):
    """everything before the last piece (empty, or ending with sep)"""
    return s[:len(s) - len(s.split(sep)[-1])]
