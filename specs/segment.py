"""Abstract view of a data segment and the laws of its reference-designator API (C17, C01),
written from the statements.  view(seg) = [[component values] per element]."""
from specs.path import refdes_parts, is_refdes
from specs.prim import in_lang


def view(seg):
    return [[e.value for e in c.elements] for c in seg.elements]


def elem_text(comps, sub):
    """formatted value of one element: components joined, trailing empty components trimmed (the first is kept)"""
    k = len(comps)
    while k > 1 and comps[k - 1] == '':
        k -= 1
    return sub.join(comps[:k])


def plain_refdes(r):
    """a canonical designator without qualifier: [SEG] ELE [-COMP]"""
    return in_lang(r, '([A-Z][A-Z0-9]{1,2})?(0[1-9]|[1-9][0-9])(-[1-9][0-9]*)?')


def spec_get_value(v, sub, seg_id, r):
    """what reading designator r must return on a segment with view v"""
    (sid, idv, ei, si) = refdes_parts(r)
    if ei > len(v):
        return None
    comps = v[ei - 1]
    if si is None:
        return elem_text(comps, sub)
    if si > len(comps):
        return None
    return comps[si - 1]


def pad_to(lst, n, filler):
    out = list(lst)
    while len(out) < n:
        out = out + [filler]
    return out


def spec_set(v, r, val):
    """view after writing val at designator r: the segment is extended with empty positions as needed,
    every other position is unchanged"""
    (sid, idv, ei, si) = refdes_parts(r)
    out = pad_to(v, ei, [''])
    if si is None:
        out[ei - 1] = [val]
    else:
        comps = pad_to(out[ei - 1], si, '')
        comps[si - 1] = val
        out[ei - 1] = comps
    return out


def seg_inv(seg):
    """representation invariant of a Segment built by its constructor / append / set: every element has
    at least one component and carries the segment's component separator (ISA elements excepted: they are
    never split and carry the element separator)"""
    for c in seg.elements:
        if len(c.elements) < 1:
            return False
        if seg.seg_id != 'ISA' and c.subele_term != seg.subele_term:
            return False
    return True


def spec_parse(text, st, et, sub):
    """(seg_id, view) of a segment text: split at the element separator, components at the component
    separator - never inside an ISA segment; an optional trailing segment terminator is dropped"""
    if text is None or text == '':
        return (None, [])
    body = text[:-1] if text[-1] == st else text
    pieces = list(body.split(et))
    seg_id = pieces[0]
    v = []
    for p in pieces[1:]:
        if seg_id == 'ISA':
            v = v + [[p]]
        else:
            v = v + [list(p.split(sub))]
    return (seg_id, v)


def trim_view(v):
    """trailing empty elements dropped (an element is empty when all its components are)"""
    k = len(v)
    while k > 0 and all_empty(v[k - 1]):
        k -= 1
    return v[:k]


def all_empty(comps):
    for c in comps:
        if c != '':
            return False
    return True


def spec_format(seg_id, v, st, et, sub):
    """text of a segment: id, elements joined by the element separator (trailing empty elements and trailing
    empty components trimmed), terminator"""
    t = trim_view(v)
    return '%s%s%s%s' % (seg_id, et, et.join([elem_text(c, sub) for c in t]), st)
