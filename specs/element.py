"""What an element definition implies for a candidate value (C15), written from the statement.
defn values are passed explicitly so that the spec does not depend on the map classes."""
from specs.prim import any_in, count_of

CONTROL_BASIC = '\x07\x09\x0a\x0b\x0c\x0d\x1c\x1d\x1e\x1f'
CONTROL_EXTENDED = '\x01\x02\x03\x04\x05\x06\x11\x12\x13\x14\x15\x16\x17'
CONTROL = CONTROL_BASIC + CONTROL_EXTENDED
DATE_TYPES = ('RD8', 'DT', 'D8', 'D6')


def has_control_char(val):
    return any_in(val, CONTROL)


def counted_len(val, data_type):
    """length as X12 counts it: sign and decimal point do not count for numeric types"""
    if data_type == 'R' or data_type[0] == 'N':
        return len(val) - count_of(val, '-') - count_of(val, '.')
    return len(val)

from specs.types import spec_type
from specs.prim import seq_filter_map

KNOWN_TYPES = ('N', 'N0', 'N1', 'N2', 'N3', 'N4', 'N5', 'N6', 'N7', 'N8', 'N9', 'R', 'ID', 'AN', 'RD8', 'DT', 'D8', 'D6', 'TM', 'B')
QUAL_TYPES = ('RD8', 'DT', 'D8', 'D6', 'TM')


def always(e):
    return True


def first(e):
    return e[0]


def codes_of(log):
    """error codes of a list of (code, offending value) entries, in order"""
    return seq_filter_map(log, always, first)


def wf_element(node, type_list):
    """facts about the shipped configuration that the element contract relies on (ground C15/C16)"""
    if node.usage not in ('R', 'S', 'N'):
        return False
    dt = node.root.data_elements.get_by_elem_num(node.data_ele)['data_type']
    if dt not in KNOWN_TYPES:
        return False
    for t in type_list:
        if t not in QUAL_TYPES:
            return False
    return True


def in_code_list(node, val):
    if len(node.valid_codes) == 0 and node.external_codes is None:
        return True
    if val in node.valid_codes:
        return True
    return node.external_codes is not None and node.root.ext_codes.isValid(node.external_codes, val)


def type_list_ok(val, type_list, charset):
    ok = False
    for t in type_list:
        if spec_type(val, t, charset, '00401'):
            ok = True
    return ok


def expected_codes(node, elem, type_list):
    """which of the codes (1, 10, 4, 5, 6, 7, 8, 9) the definition implies for this value"""
    if elem is not None and elem.is_composite():
        return (False, False, False, False, True, False, False, False)      # a composite where a simple element belongs
    if elem is None or elem.get_value() == '':
        required = node.usage == 'R' and (node.seq != 1 or not node.parent.is_composite() or node.parent.usage == 'R')
        return (required, False, False, False, False, False, False, False)
    val = elem.get_value()
    if node.usage == 'N':
        return (False, True, False, False, False, False, False, False)
    de = node.root.data_elements.get_by_elem_num(node.data_ele)
    dt = de['data_type']
    n = counted_len(val, dt)
    c4 = n < de['min_len']
    c5 = n > de['max_len']
    ctrl = has_control_char(val)
    trailing = dt in ('AN', 'ID') and val[-1] == ' ' and len(val.rstrip()) >= de['min_len']
    charset = node.root.param.get('charset')
    type_ok = spec_type(val, dt, charset, node.root.icvn)
    c8 = (not type_ok) and dt in DATE_TYPES
    c9 = (not type_ok) and dt == 'TM'
    c6 = ctrl or trailing or ((not type_ok) and dt not in DATE_TYPES and dt != 'TM')
    c7 = not in_code_list(node, val)
    if len(type_list) > 0 and not type_list_ok(val, type_list, charset):
        if 'TM' in type_list:
            c9 = True
        else:
            c8 = True
    if node.rec is not None and node.rec.search(val) is None:
        c7 = True
    return (False, False, c4, c5, c6, c7, c8, c9)


def reported(log):
    """(has 1, 10, 4, 5, 6, 7, 8, 9) among the codes of the log"""
    cs = codes_of(log)
    return ('1' in cs, '10' in cs, '4' in cs, '5' in cs, '6' in cs, '7' in cs, '8' in cs, '9' in cs)


def value_of(elem):
    if elem is None or elem.is_composite():
        return ''
    return elem.get_value()


# ---- composites (C15): what a composite definition implies for a candidate composite ------------------------------------
def comp_present(comp):
    """some component holds data"""
    if comp is None:
        return False
    for i in range(len(comp)):
        if len(comp[i].get_value()) > 0:
            return True
    return False


def comp_own_code(node, comp):
    """the composite's own error: '2' a required composite without data, '5' data in a composite marked Not Used, '3' more
    components than defined ('' = none);  `skips` tells whether the components are not looked at"""
    if not comp_present(comp) and node.usage in ('N', 'S'):
        return ''
    if node.usage == 'R' and not comp_present(comp):
        return '2'
    if node.usage == 'N':
        return '5'
    if len(comp) > len(node.children):
        return '3'
    return ''


def comp_visits_children(node, comp):
    return not (not comp_present(comp) and node.usage in ('N', 'S')) and comp_own_code(node, comp) not in ('2', '5')


def or8(a, b):
    return (a[0] or b[0], a[1] or b[1], a[2] or b[2], a[3] or b[3], a[4] or b[4], a[5] or b[5], a[6] or b[6], a[7] or b[7])


def comp_child_flags(node, comp):
    """codes the component definitions imply, component by component (a component beyond the data is validated as missing)"""
    out = (False, False, False, False, False, False, False, False)
    for i in range(len(node.children)):
        out = or8(out, expected_codes(node.children[i], comp[i] if i < len(comp) else None, []))
    return out


def comp_any_control(node, comp):
    for i in range(min(len(node.children), len(comp))):
        if has_control_char(value_of(comp[i])):
            return True
    return False


def comp_children_wf(node):
    for i in range(len(node.children)):
        ch = node.children[i]
        if not wf_element(ch, []):
            return False
        if ch.root.param.get('charset') not in ('B', 'E') or ch.root.icvn not in ('00401', '00501'):
            return False
    return node.usage in ('R', 'S', 'N')
