"""What an element definition implies for a candidate value (C15), written from the statement.
defn values are passed explicitly so that the spec does not depend on the map classes."""
from specs.prim import any_in, count_of

CONTROL_BASIC = '\x07\x09\x0a\x0b\x0c\x0d\x1c\x1d\x1e\x1f'
CONTROL_EXTENDED = '\x01\x02\x03\x04\x05\x06\x11\x12\x13\x14\x15\x16\x17'
CONTROL = CONTROL_BASIC + CONTROL_EXTENDED
DATE_TYPES = ('RD8', 'DT', 'D8', 'D6')


def has_control_char(val):
    return any_in(val, CONTROL)


def counted_len(val, data_type):
    """length as X12 counts it: sign and decimal point do not count for numeric types"""
    if data_type == 'R' or data_type[0] == 'N':
        return len(val) - count_of(val, '-') - count_of(val, '.')
    return len(val)

from specs.types import spec_type
from specs.prim import seq_filter_map

KNOWN_TYPES = ('N', 'N0', 'N1', 'N2', 'N3', 'N4', 'N5', 'N6', 'N7', 'N8', 'N9', 'R', 'ID', 'AN', 'RD8', 'DT', 'D8', 'D6', 'TM', 'B')
QUAL_TYPES = ('RD8', 'DT', 'D8', 'D6', 'TM')


def always(e):
    return True


def first(e):
    return e[0]


def codes_of(log):
    """error codes of a list of (code, offending value) entries, in order"""
    return seq_filter_map(log, always, first)


def wf_element(node, type_list):
    """facts about the shipped configuration that the element contract relies on (ground C15/C16)"""
    if node.usage not in ('R', 'S', 'N'):
        return False
    dt = node.root.data_elements.get_by_elem_num(node.data_ele)['data_type']
    if dt not in KNOWN_TYPES:
        return False
    for t in type_list:
        if t not in QUAL_TYPES:
            return False
    return True


def in_code_list(node, val):
    if len(node.valid_codes) == 0 and node.external_codes is None:
        return True
    if val in node.valid_codes:
        return True
    return node.external_codes is not None and node.root.ext_codes.isValid(node.external_codes, val)


def type_list_ok(val, type_list, charset):
    ok = False
    for t in type_list:
        if spec_type(val, t, charset, '00401'):
            ok = True
    return ok


def expected_codes(node, elem, type_list):
    """which of the codes (1, 10, 4, 5, 6, 7, 8, 9) the definition implies for this value"""
    if elem is not None and elem.is_composite():
        return (False, False, False, False, True, False, False, False)      # a composite where a simple element belongs
    if elem is None or elem.get_value() == '':
        required = node.usage == 'R' and (node.seq != 1 or not node.parent.is_composite() or node.parent.usage == 'R')
        return (required, False, False, False, False, False, False, False)
    val = elem.get_value()
    if node.usage == 'N':
        return (False, True, False, False, False, False, False, False)
    de = node.root.data_elements.get_by_elem_num(node.data_ele)
    dt = de['data_type']
    n = counted_len(val, dt)
    c4 = n < de['min_len']
    c5 = n > de['max_len']
    ctrl = has_control_char(val)
    trailing = dt in ('AN', 'ID') and val[-1] == ' ' and len(val.rstrip()) >= de['min_len']
    charset = node.root.param.get('charset')
    type_ok = spec_type(val, dt, charset, node.root.icvn)
    c8 = (not type_ok) and dt in DATE_TYPES
    c9 = (not type_ok) and dt == 'TM'
    c6 = ctrl or trailing or ((not type_ok) and dt not in DATE_TYPES and dt != 'TM')
    c7 = not in_code_list(node, val)
    if len(type_list) > 0 and not type_list_ok(val, type_list, charset):
        if 'TM' in type_list:
            c9 = True
        else:
            c8 = True
    if node.rec is not None and node.rec.search(val) is None:
        c7 = True
    return (False, False, c4, c5, c6, c7, c8, c9)


def reported(log):
    """(has 1, 10, 4, 5, 6, 7, 8, 9) among the codes of the log"""
    cs = codes_of(log)
    return ('1' in cs, '10' in cs, '4' in cs, '5' in cs, '6' in cs, '7' in cs, '8' in cs, '9' in cs)


def value_of(elem):
    if elem is None or elem.is_composite():
        return ''
    return elem.get_value()

