"""X12 path grammar (C17), written from the statement.

path      := ['/'] loop ('/' loop)* ['/' refdes]  |  ['/'] refdes  |  '' 
loop      := a loop id: one or more characters other than '/', NOT of reference-designator shape when it
             is the last component (the last component of that shape is read as a segment reference)
refdes    := SEG [ '[' QUAL ']' ] [ ELE [ '-' COMP ] ]   |   ELE [ '-' COMP ]        (bare designator)
SEG       := upper case letter followed by one or two upper case letters / digits
QUAL      := one or more upper case letters / digits
ELE       := two digits, 01..99        COMP := decimal >= 1 without leading zero
"""
from specs.prim import in_lang, digits_value

SEG = '[A-Z][A-Z0-9]{1,2}'
QUAL = '\\[[A-Z0-9]+\\]'
ELE = '(0[1-9]|[1-9][0-9])'
COMP = '-[1-9][0-9]*'
REFDES_WITH_SEG = SEG + '(' + QUAL + ')?(' + ELE + '(' + COMP + ')?)?'
REFDES_BARE = ELE + '(' + COMP + ')?'
# anything the repository's designator pattern would accept (canonical or not): such a last
# component is never a loop id
REFDES_SHAPE = '(' + SEG + ')?(\\[[A-Z0-9]+\\])?([0-9]{2})?(-[0-9]+)?'


def is_refdes(s):
    """canonical reference designator, with or without segment id"""
    return in_lang(s, REFDES_WITH_SEG) or in_lang(s, REFDES_BARE)


def wf_last(last, has_loops):
    """the last component of a well-formed path"""
    if in_lang(last, REFDES_WITH_SEG):
        return True
    if in_lang(last, REFDES_BARE):
        return not has_loops          # an element index after loop ids needs a segment id
    # a loop id: non-empty, no '/', not of designator shape (not even a non-canonical one)
    return len(last) > 0 and not in_lang(last, REFDES_SHAPE + '\\n?') and '/' not in last


def refdes_parts(s):
    """(seg_id, id_val, ele_idx, subele_idx) of a canonical designator s"""
    seg_id = None
    id_val = None
    ele_idx = None
    sub_idx = None
    rest = s
    if in_lang(rest[0:1], '[A-Z]'):
        k = 3 if in_lang(rest[0:3], SEG) and (in_lang(rest[3:], '(' + QUAL + ')?(' + ELE + '(' + COMP + ')?)?')) else 2
        seg_id = rest[0:k]
        rest = rest[k:]
    if rest[0:1] == '[':
        j = rest.find(']')
        id_val = rest[1:j]
        rest = rest[j + 1:]
    if len(rest) >= 2:
        ele_idx = digits_value(rest[0:2])
        rest = rest[2:]
        if rest[0:1] == '-':
            sub_idx = digits_value(rest[1:])
    return (seg_id, id_val, ele_idx, sub_idx)

from specs.prim import last_piece, head_text


def body_of(s):
    return s[1:] if s[0:1] == '/' else s


def wf_path(s):
    """a well-formed path of the documented grammar (see module doc)"""
    if s == '':
        return True
    body = body_of(s)
    last = last_piece(body, '/')
    head = head_text(body, '/')
    return in_lang(head, '([^/]+/)*') and wf_last(last, head != '')


def path_error(s):
    """a qualifier without segment id, or an element/component index after loop ids without a segment id"""
    if s == '':
        return False
    body = body_of(s)
    last = last_piece(body, '/')
    if last == '':
        return False
    w = last[:-1] if last[-1:] == '\n' else last
    if not in_lang(w, REFDES_SHAPE):
        return False
    if in_lang(w[0:1], '[A-Z]'):
        return False
    return w[0:1] == '[' or (w != '' and head_text(body, '/') != '')
