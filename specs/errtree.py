"""Error tree (C05): what "an error was reported inside" means, written from the statement.
stored(x) = number of error tuples kept anywhere at or below node x."""


def stored_ele(ele):
    return len(ele.errors)


def stored_seg(seg):
    n = len(seg.errors)
    for e in seg.elements:
        n += stored_ele(e)
    return n


def stored_st(st):
    n = len(st.errors)
    for e in st.elements:
        n += stored_ele(e)
    for s in st.children:
        n += stored_seg(s)
    return n


def stored_gs(gs):
    n = len(gs.errors)
    for e in gs.elements:
        n += stored_ele(e)
    for s in gs.children:
        n += stored_st(s)
    return n


def accepted_sets(gs):
    n = 0
    for s in gs.children:
        if s.ack_code in ('A', 'E'):
            n += 1
    return n


def stored_isa(isa):
    n = len(isa.errors)
    for e in isa.elements:
        n += stored_ele(e)
    for g in isa.children:
        n += stored_gs(g)
    return n


def stored_root(errh):
    n = 0
    for i in errh.children:
        n += stored_isa(i)
    return n
