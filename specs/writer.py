"""Read-back recount of the output of X12Writer (C11), written from the statement: the
written segments, read in order by the reader's envelope rules, must show no envelope
discrepancy.  The fold state is (open headers, groups, sets, segments, ok)."""
from specs.envelope import proper_header, proper_trailer, trailer_errors
from specs.prim import seq_fold, seg_val

WINIT = ([], 0, 0, 0, True)


def wstep(state, entry):
    """effect of one written segment on the reader's recount; entry = (segment, seg_term,
    ele_term, subele_term, eol).  ok stays True while every header is properly placed and
    every trailer is proper and agrees with its header's control number and the recount"""
    (stack, n_gs, n_st, n_seg, ok) = state
    seg = entry[0]
    sid = seg.get_seg_id()
    if sid == 'ISA':
        return (stack + [('ISA', seg.get_value('ISA13'))], 0, n_st, n_seg, ok and proper_header(stack, sid))
    if sid == 'GS':
        return (stack + [('GS', seg.get_value('GS06'))], n_gs + 1, 0, n_seg, ok and proper_header(stack, sid))
    if sid == 'ST':
        return (stack + [('ST', seg.get_value('ST02'))], n_gs, n_st + 1, 1, ok and proper_header(stack, sid))
    if sid in ('IEA', 'GE', 'SE'):
        if not proper_trailer(stack, sid):
            return (stack, n_gs, n_st, n_seg, False)
        return (stack[:-1], n_gs, n_st, n_seg, ok and len(trailer_errors(stack, n_gs, n_st, n_seg, seg)) == 0)
    return (stack, n_gs, n_st, n_seg + 1, ok)


def readback(log):
    return seq_fold(log, wstep, WINIT)


def wf_stack(loops):
    """open headers of a well-nested write sequence: a prefix of ISA, GS, ST"""
    if len(loops) > 3:
        return False
    if len(loops) >= 1 and loops[0][0] != 'ISA':
        return False
    if len(loops) >= 2 and loops[1][0] != 'GS':
        return False
    if len(loops) >= 3 and loops[2][0] != 'ST':
        return False
    return True


def ids_present(loops):
    for x in loops:
        if x[1] is None:
            return False
    return True


def winv(fold, loops, gs_count, st_count, seg_count):
    """writer state agrees with the read-back of what it has written so far"""
    (stack, n_gs, n_st, n_seg, ok) = fold
    return ok and stack == loops and \
        (len(loops) < 1 or gs_count == n_gs) and \
        (len(loops) < 2 or st_count == n_st) and \
        (len(loops) < 3 or seg_count == n_seg)


def header_ok(loops, seg):
    """well-nested write sequence: a header arrives under its proper parent and carries its control number"""
    sid = seg.get_seg_id()
    if sid == 'ISA':
        return len(loops) == 0 and seg.get_value('ISA13') is not None
    if sid == 'GS':
        return len(loops) == 1 and seg.get_value('GS06') is not None
    if sid == 'ST':
        return len(loops) == 2 and seg.get_value('ST02') is not None
    return True


def entry_of(seg, w):
    return (seg_val(seg), w.seg_term, w.ele_term, w.subele_term, w.eol)


def closes_through(loops, sid):
    """after a trailer of kind K has been written no header of kind K (or deeper) stays open"""
    if sid == 'IEA':
        return len(loops) == 0
    if sid == 'GE':
        return len(loops) <= 1
    if sid == 'SE':
        return len(loops) <= 2
    return True


def stack_after_trailer(old, sid):
    """a trailer of kind K closes the innermost open K header and everything inside it -
    nothing more; when no K header is open every open header is closed"""
    if sid == 'IEA':
        return []
    if sid == 'GE':
        return old[:1] if len(old) >= 2 else []
    if sid == 'SE':
        return old[:2] if len(old) >= 3 else []
    return old
