"""C01: what the raw tokeniser must deliver, written from the statement: the text is cut at the segment terminator the
header names; leading CR/LF of a piece are dropped; empty pieces are no segments; text after the last terminator is no
segment.  One unfolding step of that reading:"""


def head_piece(text, term):
    """the text before the first terminator (requires: term in text)"""
    return text[:text.find(term)]


def after_piece(text, term):
    """the text after the first terminator (requires: term in text)"""
    return text[text.find(term) + 1:]


def token_of(text, term):
    """the segment line the first piece gives ('' = none)"""
    return head_piece(text, term).lstrip('\n\r')


def tokens(text, term):
    """the whole reading (executable; used by the bounded differential, unfolded one step per loop iteration in the proof)"""
    out = []
    while term in text:
        t = token_of(text, term)
        if t != '':
            out.append(t)
        text = after_piece(text, term)
    return out
