"""Character codes of the HTML / XML escaping functions, written from the statements of C19 / C08."""


def html_code(c):
    if c == '&':
        return '&amp;'
    if c == ' ':
        return '&nbsp;'
    if c == '>':
        return '&gt;'
    if c == '<':
        return '&lt;'
    return c


def xml_cont_code(c):
    if c == '&':
        return '&amp;'
    if c == '<':
        return '&lt;'
    if c == '>':
        return '&gt;'
    return c


def xml_attr_code(c):
    if c == '&':
        return '&amp;'
    if c == "'":
        return '&apos;'
    if c == '<':
        return '&lt;'
    if c == '>':
        return '&gt;'
    return c


def code_html(s):
    out = ''
    for c in s:
        out = out + html_code(c)
    return out


def code_xml_cont(s):
    out = ''
    for c in s:
        out = out + xml_cont_code(c)
    return out


def code_xml_attr(s):
    out = ''
    for c in s:
        out = out + xml_attr_code(c)
    return out
