"""Independent recount of the X12 envelope (C04), written from the statement.

The recount keeps, per scope, what a careful reader of the interchange would keep:
the stack of open headers with their control numbers, the control numbers already seen
in the enclosing scope, and the true numbers of groups / sets / segments, the HL sequence
counter with the chain of open HL ancestors, and the 837 service-line counter.
All functions are pure; `seg` is anything with get_seg_id() and get_value(refdes)."""
from specs.prim import int_or_none, seq_filter_map

ENVELOPE = ('ISA', 'IEA', 'GS', 'GE', 'ST', 'SE')


def proper_header(stack, sid):
    """a header is in place when the innermost open header is its proper parent"""
    if sid == 'ISA':
        return len(stack) == 0
    if sid == 'GS':
        return len(stack) == 1 and stack[0][0] == 'ISA'
    if sid == 'ST':
        return len(stack) == 2 and stack[0][0] == 'ISA' and stack[1][0] == 'GS'
    return True


def proper_trailer(stack, sid):
    """a trailer is in place when the innermost open header is the one it closes"""
    if sid == 'IEA':
        return len(stack) > 0 and stack[-1][0] == 'ISA'
    if sid == 'GE':
        return len(stack) > 0 and stack[-1][0] == 'GS'
    if sid == 'SE':
        return len(stack) > 0 and stack[-1][0] == 'ST'
    return True


def header_step(stack, isa_seen, gs_seen, st_seen, n_gs, n_st, n_seg, n_hl, n_lx, check_lx, seg):
    """effect of one segment on the recount, trailers' closing effect excluded.
    -> (stack, isa_seen, gs_seen, st_seen, n_gs, n_st, n_seg, n_hl, n_lx, errors)"""
    sid = seg.get_seg_id()
    errs = []
    if sid == 'ISA':
        cn = seg.get_value('ISA13')
        if cn in isa_seen:
            errs = errs + [('isa', '025')]          # control number reused within the file
        return (stack + [('ISA', cn)], isa_seen + [cn], [], st_seen, 0, n_st, n_seg, n_hl, n_lx, errs)
    if sid == 'GS':
        cn = seg.get_value('GS06')
        if cn in gs_seen:
            errs = errs + [('gs', '6')]             # reused within the interchange
        return (stack + [('GS', cn)], isa_seen, gs_seen + [cn], [], n_gs + 1, 0, n_seg, n_hl, n_lx, errs)
    if sid == 'ST':
        cn = seg.get_value('ST02')
        if cn in st_seen:
            errs = errs + [('st', '23')]            # reused within the group
        return (stack + [('ST', cn)], isa_seen, gs_seen, st_seen + [cn], n_gs, n_st + 1, 1, 0, n_lx, errs)
    if sid == 'HL':
        if int_or_none(seg.get_value('HL01')) != n_hl + 1:
            errs = errs + [('seg', 'HL1')]          # sequence number wrong
        return (stack, isa_seen, gs_seen, st_seen, n_gs, n_st, n_seg + 1, n_hl + 1, n_lx, errs)
    if check_lx and sid == 'CLM':
        return (stack, isa_seen, gs_seen, st_seen, n_gs, n_st, n_seg + 1, n_hl, 0, errs)
    if check_lx and sid == 'LX':
        if seg.get_value('LX01') != str(n_lx + 1):
            errs = errs + [('seg', 'LX')]           # service line number out of sequence
        return (stack, isa_seen, gs_seen, st_seen, n_gs, n_st, n_seg + 1, n_hl, n_lx + 1, errs)
    if sid in ('IEA', 'GE', 'SE'):
        return (stack, isa_seen, gs_seen, st_seen, n_gs, n_st, n_seg, n_hl, n_lx, errs)
    return (stack, isa_seen, gs_seen, st_seen, n_gs, n_st, n_seg + 1, n_hl, n_lx, errs)


def hl_parent_wrong(hl_open, seg):
    """HL02 given, and not the number of an HL on the chain of open ancestors"""
    p = seg.get_value('HL02')
    if p == '':
        return False
    return int_or_none(p) not in hl_open


def hl_chain_after(old, new, seg, n):
    """the chain of open HL ancestors after HL number n: cut back to the named parent
    (everything above it is closed), then n itself"""
    if len(new) < 1 or new[-1] != n:
        return False
    kept = new[:-1]
    p = seg.get_value('HL02')
    if p == '':
        return kept == old
    pn = int_or_none(p)
    return old[:len(kept)] == kept and pn not in old[len(kept):] and (len(kept) == 0 or kept[-1] == pn)



def trailer_errors(stack, n_gs, n_st, n_seg, seg):
    """discrepancies a proper trailer shows against its header and the recount"""
    sid = seg.get_seg_id()
    errs = []
    if sid == 'IEA':
        if stack[-1][1] != seg.get_value('IEA02'):
            errs = errs + [('isa', '001')]
        if int_or_none(seg.get_value('IEA01')) != n_gs:
            errs = errs + [('isa', '021')]
    if sid == 'GE':
        if stack[-1][1] != seg.get_value('GE02'):
            errs = errs + [('gs', '4')]
        if int_or_none(seg.get_value('GE01')) != n_st:
            errs = errs + [('gs', '5')]
    if sid == 'SE':
        if stack[-1][1] != seg.get_value('SE02'):
            errs = errs + [('st', '3')]
        if int_or_none(seg.get_value('SE01')) != n_seg + 1:
            errs = errs + [('st', '4')]
    return errs


def is_envelope_err(e):
    """e = (level, code, message, value, line): is it one of the envelope-class errors"""
    return (e[0] == 'isa' and e[1] in ('025', '024', '001', '021', '023')) or \
           (e[0] == 'gs' and e[1] in ('6', '3', '4', '5')) or \
           (e[0] == 'st' and e[1] in ('23', '3', '4', '2')) or \
           (e[0] == 'seg' and e[1] in ('HL1', 'HL2', 'LX'))


def err_code(e):
    return (e[0], e[1])


def envelope_codes(err_list):
    """(level, code) of the envelope-class errors in a reader error list, in order"""
    return seq_filter_map(err_list, is_envelope_err, err_code)


def end_errors_for(kind):
    if kind == 'ST':
        return ('st', '2')
    if kind == 'GS':
        return ('gs', '3')
    return ('isa', '023')


def with_hl2(step, hl_open, seg):
    """add the HL-parent finding to the errors of a header_step result"""
    errs = step[9]
    if seg.get_seg_id() == 'HL' and hl_parent_wrong(hl_open, seg):
        errs = errs + [('seg', 'HL2')]
    return (step[0], step[1], step[2], step[3], step[4], step[5], step[6], step[7], step[8], errs)


def state_of(step):
    return (step[0], step[1], step[2], step[3], step[4], step[5], step[6], step[7], step[8])


def reader_step(stack, isa_seen, gs_seen, st_seen, n_gs, n_st, n_seg, n_hl, n_lx, check_lx, hl_open, seg):
    """header_step + HL parent finding + the closing effect of a PROPER trailer"""
    h = with_hl2(header_step(stack, isa_seen, gs_seen, st_seen, n_gs, n_st, n_seg, n_hl, n_lx, check_lx, seg), hl_open, seg)
    sid = seg.get_seg_id()
    if sid in ('IEA', 'GE', 'SE'):
        return (stack[:-1], h[1], h[2], h[3], h[4], h[5], h[6], h[7], h[8], h[9] + trailer_errors(stack, n_gs, n_st, n_seg, seg))
    return h


def is_open_header(entry):
    return entry[0] in ('ISA', 'GS', 'ST')


def end_error_of(entry):
    """the error a header still open at end of input must draw"""
    return end_errors_for(entry[0])


def end_errors(stack):
    return seq_filter_map(stack, is_open_header, end_error_of)
