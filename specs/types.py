"""Value languages of the X12 data types, written from the statement of C13 (and the X12
character-set definition), not from pyx12/validation.py.  Pure python; executed natively
by the replay step and symbolically by the verifier."""
from specs.prim import all_in, any_in, in_lang, digits_value

DIGITS = '0123456789'
UPPER = 'ABCDEFGHIJKLMNOPQRSTUVWXYZ'
LOWER = 'abcdefghijklmnopqrstuvwxyz'
# X12 basic character set: upper case letters, digits, and these special characters + space
BASIC = UPPER + DIGITS + '!"&\'()*+,-./:;?= '
# X12 extended character set (4010): basic + lower case letters + further special characters
EXTENDED = BASIC + LOWER + '%~@[]_{}\\|<>#$'
# 5010 adds the caret and the grave accent
EXTENDED_5010 = EXTENDED + '^`'


def days_in_month(year, month):
    if month in (1, 3, 5, 7, 8, 10, 12):
        return 31
    if month in (4, 6, 9, 11):
        return 30
    leap = (year % 4 == 0) and (year % 100 != 0 or year % 400 == 0)
    return 29 if leap else 28


def spec_time(val):
    """HHMM, HHMMSS, or HHMMSS plus one or two decimal digits; every field in range"""
    if not all_in(val, DIGITS):
        return False
    n = len(val)
    if n not in (4, 6, 7, 8):
        return False
    if digits_value(val[0:2]) > 23 or digits_value(val[2:4]) > 59:
        return False
    if n >= 6 and digits_value(val[4:6]) > 59:
        return False
    return True


def spec_date(data_type, val):
    """D8: CCYYMMDD; D6: YYMMDD with the window <50 -> 20YY else 19YY; DT: either of them
    or CCYYMMDDHHMM.  A real calendar date, not before 1800."""
    if not all_in(val, DIGITS):
        return False
    n = len(val)
    if data_type == 'D8':
        if n != 8:
            return False
    elif data_type == 'D6':
        if n != 6:
            return False
    else:
        if n not in (6, 8, 12):
            return False
    if n == 6:
        yy = digits_value(val[0:2])
        year = 2000 + yy if yy < 50 else 1900 + yy
        month = digits_value(val[2:4])
        day = digits_value(val[4:6])
    else:
        year = digits_value(val[0:4])
        month = digits_value(val[4:6])
        day = digits_value(val[6:8])
    if year < 1800:
        return False
    if month < 1 or month > 12:
        return False
    if day < 1 or day > days_in_month(year, month):
        return False
    if n == 12:
        return spec_time(val[8:12])
    return True


def spec_date_range(val):
    """two D8 dates joined by exactly one hyphen"""
    if len(val) != 17:
        return False
    if val[8] != '-':
        return False
    return spec_date('D8', val[0:8]) and spec_date('D8', val[9:17])


def spec_int(val):
    """optional minus followed by digits"""
    return in_lang(val, '-?[0-9]+')


def spec_real(val):
    """optional minus, digits, at most one point which must be followed by digits; at least one digit"""
    return in_lang(val, '-?[0-9]*(\\.[0-9]+)?') and any_in(val, DIGITS)


def charset_chars(charset, icvn):
    if charset == 'B':
        return BASIC
    if icvn == '00501':
        return EXTENDED_5010
    return EXTENDED


def spec_string(val, charset, icvn):
    if charset == 'B':
        return all_in(val, BASIC)
    if icvn == '00501':
        return all_in(val, EXTENDED_5010)
    return all_in(val, EXTENDED)


def spec_type(val, data_type, charset, icvn):
    """the language of data_type under (charset, icvn)"""
    if data_type[0] == 'N':
        return spec_int(val)
    if data_type == 'R':
        return spec_real(val)
    if data_type in ('ID', 'AN'):
        return spec_string(val, charset, icvn)
    if data_type == 'RD8':
        return spec_date_range(val)
    if data_type in ('DT', 'D8', 'D6'):
        return spec_date(data_type, val)
    if data_type == 'TM':
        return spec_time(val)
    if data_type == 'B':
        return True
    return False
