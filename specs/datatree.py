"""Data-node tree (C10): placement law of added nodes, written from the statement: an added segment or
loop is placed after existing siblings of the same or earlier map position and before later ones."""


def live(children):
    return [c for c in children if c.type is not None]


def sorted_by_pos(nodes):
    for i in range(len(nodes) - 1):
        if nodes[i].x12_map_node.pos > nodes[i + 1].x12_map_node.pos:
            return False
    return True


def placement_ok(nodes, r, pos):
    """r splits nodes into those at or before pos and those after pos"""
    if r < 0 or r > len(nodes):
        return False
    for i in range(len(nodes)):
        if i < r and nodes[i].x12_map_node.pos > pos:
            return False
        if i >= r and nodes[i].x12_map_node.pos <= pos:
            return False
    return True


def same_nodes(a, b):
    """same nodes in the same order (compared by map position and type)"""
    if len(a) != len(b):
        return False
    for i in range(len(a)):
        if a[i].x12_map_node.pos != b[i].x12_map_node.pos or a[i].type != b[i].type:
            return False
    return True
