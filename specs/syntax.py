"""X12 syntax notes (relational conditions), written from the statement of C14 and the X12
definitions.  `seg` is anything with __len__() and get_value(refdes)."""

from specs.prim import digits_value

DIGITS = '0123456789'


def refdes2(i):
    """two-digit element reference of position i (1..99)"""
    return chr(48 + i // 10) + chr(48 + i % 10)


def present(seg, i):
    """element i is present: inside the segment and not empty"""
    return len(seg) >= i and seg.get_value(refdes2(i)) != ''


def count_present(seg, idxs):
    n = 0
    for i in idxs:
        if present(seg, i):
            n += 1
    return n


def valid_positions(idxs):
    for i in idxs:
        if i < 1 or i > 99:
            return False
    return True


def syntax_violated(kind, seg, idxs):
    """idxs: the element positions the note mentions (at least two)"""
    if kind == 'P':      # paired: if any is present, all are required
        c = count_present(seg, idxs)
        return 0 < c and c < len(idxs)
    if kind == 'R':      # required: at least one
        return count_present(seg, idxs) == 0
    if kind == 'E':      # exclusion: at most one
        return count_present(seg, idxs) > 1
    if kind == 'C':      # conditional: if the first is present, all others are required
        return present(seg, idxs[0]) and count_present(seg, idxs[1:]) < len(idxs) - 1
    if kind == 'L':      # list conditional: if the first is present, at least one other is required
        return present(seg, idxs[0]) and count_present(seg, idxs[1:]) == 0
    return True


def parse_note(text):
    """'P0304' -> ['P', 3, 4]"""
    out = [text[0]]
    k = 1
    while k + 2 <= len(text):
        out.append(digits_value(text[k:k + 2]))
        k += 2
    return out


def seg_consistent(seg, idxs):
    """fact about real segments (C17 contract of Segment.get/get_value): a position has no
    value (None) exactly when it lies beyond the last element"""
    for i in idxs:
        if (seg.get_value(refdes2(i)) is None) != (len(seg) < i):
            return False
    return True
