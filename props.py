"""Which units decide which property (see DESIGN.md section 5)."""

PROPS = {
    'C13': {
        'level': 'proof',
        'functions': [
            'pyx12.validation.match_re',
            'pyx12.validation.not_match_re',
            'pyx12.validation.is_valid_time',
            'pyx12.validation.is_valid_date',
            'pyx12.validation.IsValidDataType',
        ],
        'rxdiff': ['pyx12.validation:rec_N', 'pyx12.validation:rec_R', 'pyx12.validation:rec_ID_B:any',
                   'pyx12.validation:rec_ID_E:any', 'pyx12.validation:rec_ID_E5:any',
                   'pyx12.validation:rec_DT:any', 'pyx12.validation:rec_TM:any'],
    },
    'C14': {
        'level': 'proof',
        'functions': [
            'pyx12.syntax.is_syntax_valid',
            'pyx12.map_if.segment_if._split_syntax',
        ],
        'crosscheck_functions': [],
        'ground': ['c14'],
        'bounded': ['contracts.map_if:bounded_segment_is_valid'],
    },
    'C04': {
        'level': 'proof',
        'functions': [
            'pyx12.x12file.X12Base._parse_segment',
            'pyx12.x12file.X12Reader._parse_segment',
            'pyx12.x12file.X12Reader.cleanup',
        ],
        'crosscheck_functions': [],
    },
    'C11': {
        'level': 'proof',
        'functions': [
            'pyx12.x12file.X12Writer.Write',
            'pyx12.x12file.X12Writer.Close',
        ],
        'assumed_contracts': ['pyx12.x12file.X12Writer._get_trailer_segment'],
        'bounded': ['contracts.x12file:bounded_get_trailer_segment'],
        'crosscheck_functions': [],
    },
    'C16': {
        'level': 'other',
        'functions': [],
        'crosscheck': False,
        'ground': ['c16'],
        'explanation': 'exhaustive ground evaluation: every index entry, every map file, every node of every shipped map, loaded through the real loader '
                       'under /venv/bin/python; finite configuration, no universally quantified claim beyond it',
    },
    'C18': {
        'level': 'other',
        'functions': [],
        'crosscheck': False,
        'frames': {'rules': ('global-write', 'modconst-mut', 'default-mut', 'nondet', 'hash-order', 'reflection', 'cache-decorator'),
                   'allow': 'ALLOW_C18', 'replay': {'hash-order': 'frames_replay.py'}},
        'explanation': 'modifies-frame / determinism obligations over every function of the package (tests, scripts, examples excluded), discharged by a '
                       'conservative syntactic analysis of the real AST; one obligation per (rule, module); a finding outside the reasoned allow-list refutes it',
    },
    'C15': {
        'level': 'proof',
        'functions': [
            'pyx12.validation.contains_control_character',
            'pyx12.map_if.element_if.is_valid',
        ],
        'crosscheck_functions': [],
        'bounded': ['contracts.map_if:bounded_segment_is_valid'],
    },
    'C19': {
        'level': 'proof',
        'functions': ['pyx12.error_html.escape_html_chars'],
        'crosscheck_functions': ['pyx12.error_html.escape_html_chars'],
        'lean': 'lemmas/Escape.lean',
        'taint': {'file': 'pyx12/error_html.py', 'escape': ['escape_html_chars'],
                  'clean_names': {'err_cde': 'error codes are program literals', 'cur_line': 'integer line number',
                                  'self.eol': "constant '' set in __init__"},
                  'clean_calls': {'time.strftime': 'clock, not input'},
                  'allow': [('gen_info', ['info_str'], 'loop id and name come from the map (configuration), not from the input')],
                  'replay': 'html_replay.py'},
        'bounded': ['contracts.sinks:bounded_html_report'],
    },
    'C08': {
        'level': 'proof',
        'functions': ['pyx12.xmlwriter.XMLWriter._escape_cont', 'pyx12.xmlwriter.XMLWriter._escape_attr'],
        'crosscheck_functions': [],
        'lean': 'lemmas/Escape.lean',
        'bounded': ['contracts.sinks:bounded_xml_roundtrip'],
    },
    'C17': {
        'level': 'proof',
        'functions': [
            'pyx12.path.X12Path.__init__',
            'pyx12.segment.Segment.get_value',
            'pyx12.segment.Segment.set',
        ],
        'crosscheck_functions': [],
        'ground': ['c17'],
    },
    'C01': {
        'level': 'proof',
        'functions': [
            'pyx12.segment.Segment.__init__',
            'pyx12.segment.Segment.format',
            'pyx12.x12file.X12Reader.__iter__',
        ],
        'assumed_contracts': ['abs:pyx12.segment.Segment.__init__'],
        'crosscheck_functions': [],
        'bounded': ['contracts.rawx12file:bounded_tokenise'],
    },
    'C05': {
        'level': 'proof',
        'functions': ['pyx12.error_handler.err_seg.err_count', 'pyx12.error_handler.err_st.err_count', 'pyx12.error_handler.err_st.close',
                      'pyx12.error_handler.err_gs._get_ack_code', 'pyx12.error_handler.err_gs.count_failed_st'],
        'crosscheck_functions': [],
        'bounded': ['contracts.pipeline:bounded_pipeline_c05'],
    },
    'C06': {
        'level': 'proof',
        'functions': ['pyx12.error_997.error_997_visitor._write'],
        'crosscheck_functions': [],
        'ground': ['c06'],
        'bounded': ['contracts.pipeline:bounded_pipeline_c06'],
    },
    'C07': {
        'level': 'proof',
        'functions': ['pyx12.x12file.X12Reader.__iter__', 'pyx12.x12file.X12Base._parse_segment', 'pyx12.x12file.X12Reader._parse_segment',
                      'pyx12.x12file.X12Reader.cleanup', 'pyx12.validation.IsValidDataType', 'pyx12.map_if.element_if.is_valid'],
        'crosscheck_functions': [],
        'bounded': ['contracts.pipeline:bounded_pipeline_c07'],
    },
    'C10': {
        'level': 'proof',
        'functions': ['pyx12.x12context.X12DataNode._get_insert_idx', 'pyx12.x12context.X12DataNode._cleanup',
                      'pyx12.segment.Segment.get_value', 'pyx12.segment.Segment.set'],
        'crosscheck_functions': [],
        'bounded': ['contracts.x12context:bounded_tree_editing'],
    },
    'C12': {
        'level': 'proof',
        'functions': ['pyx12.segment.Segment.__init__', 'pyx12.segment.Segment.format'],
        'crosscheck_functions': [],
        'frames': {'rules': ('delim-read',), 'allow': 'ALLOW_C12'},
        'bounded': ['contracts.pipeline:bounded_reencode'],
    },
}
